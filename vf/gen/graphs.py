"""Random import graphs over a small set of modules and names (C06): cycles, self-imports,
cyclic wildcards, missing modules/names, relative imports past the top are all allowed."""
from __future__ import annotations

import random

MODULES = ["p", "p.a", "p.b", "p.s", "p.s.c", "q", "q.d"]
PACKAGES = {"p", "p.s", "q"}
NAMES = ["X", "Y", "Z", "W"]
MISSING_MODULES = ["p.zz", "nope", "p.s.nope", "q.d.e"]


def mod_file(mod: str) -> str:
    return mod.replace(".", "/") + ("/__init__.py" if mod in PACKAGES else ".py")


def gen_statement(rng: random.Random, mod: str, hostile: bool) -> tuple[str, dict]:
    """One top-level statement and a descriptor used by the non-triviality / classifier logic."""
    r = rng.random()
    name = rng.choice(NAMES)
    if r < 0.25:
        form = rng.choice(["def {n}(): ...", "class {n}: ...", "{n} = 1", "{n}: int = 2"])
        return form.format(n=name), {"t": "def", "name": name}
    targets = MODULES + (MISSING_MODULES if hostile else [])
    if hostile and rng.random() < 0.18:
        # a dotted path that goes *through a name* bound in a package (possibly an alias of a module, possibly of the very
        # module that contains this import)
        targets = [f"{rng.choice(['p', 'q', 'p.s'])}.{rng.choice(NAMES)}"]
    target = rng.choice(targets)
    if r < 0.55:
        # from-import, absolute or relative
        asname = rng.choice([None, None, rng.choice(NAMES)])
        imported = rng.choice(NAMES + (["nothing"] if hostile else []) + [m.rsplit(".", 1)[-1] for m in MODULES if "." in m][:2])
        if rng.random() < 0.35:
            level = rng.randint(1, 3 if hostile else 2)
            rel = rng.choice(["", "a", "b", "s", "s.c", "d", "c"])
            stmt = f"from {'.' * level}{rel} import {imported}"
            desc = {"t": "from", "rel": level, "module": rel, "name": imported}
        else:
            stmt = f"from {target} import {imported}"
            desc = {"t": "from", "module": target, "name": imported}
        if asname:
            stmt += f" as {asname}"
            desc["as"] = asname
        return stmt, desc
    if r < 0.70:
        asname = rng.choice([None, rng.choice(NAMES)])
        stmt = f"import {target}" + (f" as {asname}" if asname else "")
        return stmt, {"t": "import", "module": target, "as": asname}
    if r < 0.90:
        if rng.random() < 0.3:
            level = rng.randint(1, 3 if hostile else 2)
            rel = rng.choice(["", "a", "b", "s", "d", "c"])
            if not rel and level == 1 and not hostile:
                rel = "a"
            return f"from {'.' * level}{rel} import *", {"t": "wild", "rel": level, "module": rel}
        return f"from {target} import *", {"t": "wild", "module": target}
    k = rng.randint(0, 3)
    names = rng.sample(NAMES + ["ghost"], k) if hostile else rng.sample(NAMES, k)
    if rng.random() < 0.45:
        # __all__ composed from another module's __all__: the module is named by a bare name (bound here or not, to a
        # module, to an alias of a module, to anything), by a dotted path (possibly through a name bound in a package),
        # or is this very module (`__all__ += __all__`)
        kind = rng.random()
        if kind < 0.45:
            ref = rng.choice(NAMES + ["a", "b", "s", "c", "d"])
        elif kind < 0.85:
            ref = target
        else:
            ref = ""
        expr = f"{ref}.__all__" if ref else "__all__"
        if kind < 0.45 and rng.random() < 0.2:
            expr = ref   # a bare name standing for a list (`from m import __all__ as X`)
        bare = not expr.endswith("__all__")
        return compose_all(rng, names, expr), {"t": "allref", "ref": expr if bare else expr.removesuffix("__all__").rstrip("."),
                                               "bare": bare, "names": names}
    return f"__all__ = {names!r}", {"t": "all", "names": names}


COMPOSITIONS = ["augment", "augment-only", "plus-right", "plus-left", "star-list", "star-tuple", "bare", "annotated", "augment-star"]


def compose_all(rng: random.Random, names: list[str], expr: str, form: str | None = None) -> str:
    """One or two statements that build ``__all__`` from the literal ``names`` and from the list ``expr``."""
    form = form or rng.choice(COMPOSITIONS)
    lit = repr(list(names))
    if form == "augment":
        return f"__all__ = {lit}\n__all__ += {expr}"
    if form == "augment-only":   # valid only after an earlier assignment; griffe sees it with exports possibly unset
        return f"__all__ += {expr}"
    if form == "plus-right":
        return f"__all__ = {lit} + {expr}"
    if form == "plus-left":
        return f"__all__ = {expr} + {lit}"
    if form == "star-list":
        return f"__all__ = [*{expr}, " + ", ".join(repr(n) for n in names) + "]"
    if form == "star-tuple":
        return "__all__ = (" + "".join(repr(n) + ", " for n in names) + f"*{expr},)"
    if form == "bare":
        return f"__all__ = {expr}"
    if form == "annotated":
        return f"__all__: list[str] = {lit} + [*{expr}]"
    return f"__all__ = {lit}\n__all__ += [*{expr}]"


def gen_graph(rng: random.Random, hostile: bool = True) -> tuple[dict[str, str], dict[str, list[dict]]]:
    files: dict[str, str] = {}
    descs: dict[str, list[dict]] = {}
    for mod in MODULES:
        n = rng.randint(0, 4)
        lines, ds = [], []
        for _ in range(n):
            s, d = gen_statement(rng, mod, hostile)
            lines.append(s)
            ds.append(d)
        if rng.random() < 0.15:
            s, d = gen_statement(rng, mod, hostile)
            if d["t"] in ("from", "import", "wild"):
                lines.append("class K:\n    " + s)
                ds.append({"t": "class-import", "inner": d})
        files[mod_file(mod)] = "\n".join(lines) + "\n"
        descs[mod] = ds
    return files, descs


def absolute(mod: str, d: dict) -> str | None:
    """Absolute module path a from/wildcard statement in ``mod`` refers to (None when past the top)."""
    if "rel" not in d:
        return d["module"]
    is_pkg = mod in PACKAGES
    parts = mod.split(".")
    if not is_pkg:
        parts = parts[:-1]
    up = d["rel"] - 1
    if up > len(parts):
        return None
    base = parts[: len(parts) - up] if up else parts
    if not base and up:
        return None
    return ".".join(base + ([d["module"]] if d["module"] else []))


def wildcard_edges(descs: dict[str, list[dict]]) -> dict[str, set[str]]:
    edges: dict[str, set[str]] = {m: set() for m in descs}
    for mod, ds in descs.items():
        for d in ds:
            if d["t"] == "wild":
                tgt = absolute(mod, d)
                if tgt:
                    edges[mod].add(tgt)
    return edges


def has_wildcard_cycle(descs: dict[str, list[dict]]) -> bool:
    edges = wildcard_edges(descs)
    for start in edges:
        seen, todo = set(), list(edges[start])
        while todo:
            m = todo.pop()
            if m == start:
                return True
            if m in seen or m not in edges:
                continue
            seen.add(m)
            todo.extend(edges[m])
    return False


def gen_ring(rng: random.Random) -> tuple[dict[str, str], dict[str, list[dict]]]:
    """Re-export rings across the two packages: every module of the ring imports the name from the next one (explicitly or
    by wildcard), some also define it locally before/after the import, some list it in __all__.  Loaded incrementally
    (load, resolve, load more, resolve) such rings get closed *after* part of them was already resolved."""
    k = rng.randint(2, 5)
    ring = rng.sample(MODULES, k)
    if not any(m.split(".")[0] == "q" for m in ring):
        ring[rng.randrange(k)] = rng.choice(["q", "q.d"])
    if not any(m.split(".")[0] == "p" for m in ring):
        ring[rng.randrange(k)] = rng.choice(["p", "p.a", "p.b"])
    ring = list(dict.fromkeys(ring))
    name = rng.choice(NAMES)
    files = {mod_file(m): "" for m in MODULES}
    descs: dict[str, list[dict]] = {m: [] for m in MODULES}
    for i, mod in enumerate(ring):
        nxt = ring[(i + 1) % len(ring)]
        lines, ds = [], []
        local = rng.random() < 0.4
        local_first = rng.random() < 0.5
        definition = rng.choice([f"def {name}(): ...", f"class {name}: ...", f"{name} = 1"])
        if local and local_first:
            lines.append(definition)
            ds.append({"t": "def", "name": name})
        if rng.random() < 0.45:
            lines.append(f"from {nxt} import *")
            ds.append({"t": "wild", "module": nxt})
        else:
            asname = rng.choice([None, None, name, rng.choice(NAMES)])
            lines.append(f"from {nxt} import {name}" + (f" as {asname}" if asname else ""))
            ds.append({"t": "from", "module": nxt, "name": name, **({"as": asname} if asname else {})})
        if local and not local_first:
            lines.append(definition)
            ds.append({"t": "def", "name": name})
        if rng.random() < 0.4:
            lines.append(f"__all__ = [{name!r}]")
            ds.append({"t": "all", "names": [name]})
        files[mod_file(mod)] = "\n".join(lines) + "\n"
        descs[mod] = ds
    # sometimes reach the next module through an alias of it bound in its package: `from p import a as X` + `from p.X import n`
    if rng.random() < 0.35:
        mod = rng.choice(ring)
        nxt = rng.choice([m for m in MODULES if "." in m])
        pkgname, leaf = nxt.rsplit(".", 1)
        alias = rng.choice(NAMES)
        files[mod_file(pkgname)] = files.get(mod_file(pkgname), "") + f"from {pkgname} import {leaf} as {alias}\n"
        descs.setdefault(pkgname, []).append({"t": "from", "module": pkgname, "name": leaf, "as": alias})
        files[mod_file(mod)] += f"from {pkgname}.{alias} import {name}\n"
        descs[mod].append({"t": "from", "module": f"{pkgname}.{alias}", "name": name})
        if rng.random() < 0.5:
            files[mod_file(nxt)] = files.get(mod_file(nxt), "") + f"from {pkgname}.{alias} import {name}\n"
            descs.setdefault(nxt, []).append({"t": "from", "module": f"{pkgname}.{alias}", "name": name})
    # a little noise elsewhere
    for mod in MODULES:
        if mod not in ring and rng.random() < 0.3:
            s, d = gen_statement(rng, mod, True)
            files[mod_file(mod)] = s + "\n"
            descs[mod] = [d]
    return files, descs


# -- __all__ composition (`__all__ += other.__all__`) ---------------------------------------------------------------------
OWN = ["A0", "A1", "A2", "A3"]
HOPS_DIRECT = ["from", "import", "import-as", "relative", "all-name"]
HOPS_ALIASED = ["facade", "facade-as", "facade-dotted", "facade-chain", "facade-all-name"]
HOPS_OTHER = ["facade-wildcard", "facade-cyclic", "unbound"]


def _bind(rng: random.Random, where: str, name: str, module: str) -> tuple[str, dict]:
    """A statement placed in module ``where`` that binds ``name`` to the module ``module``."""
    if "." in module and rng.random() < 0.6:
        pkg, leaf = module.rsplit(".", 1)
        rel = _relative(where, pkg)
        if rel is not None and rng.random() < 0.4:
            return f"from {'.' * rel} import {leaf} as {name}", {"t": "from", "rel": rel, "module": "", "name": leaf, "as": name}
        return f"from {pkg} import {leaf} as {name}", {"t": "from", "module": pkg, "name": leaf, "as": name}
    return f"import {module} as {name}", {"t": "import", "module": module, "as": name}


def _relative(mod: str, pkg: str) -> int | None:
    """Level of the relative import that names package ``pkg`` from inside ``mod`` (None when ``pkg`` does not contain it)."""
    base = mod.split(".") if mod in PACKAGES else mod.split(".")[:-1]
    parts = pkg.split(".")
    if base[: len(parts)] != parts:
        return None
    return len(base) - len(parts) + 1


def gen_allring(rng: random.Random) -> tuple[dict[str, str], dict[str, list[dict]]]:  # noqa: C901, PLR0912, PLR0915
    """Chains and rings of ``__all__`` compositions: every module builds its ``__all__`` from its own names and from the
    ``__all__`` of the next module, which it names directly (from-import, dotted import, import-as, relative import, the
    list itself imported under a name) or *through aliases* bound in other modules (a facade re-exporting the module under
    another name, a dotted path through such a name, a chain of two facades, the list imported through the facade), or not
    at all (name only reachable through a wildcard, name that is an alias cycle, unbound name).  Rings of 1-4 modules, closed or open (an open chain
    ends in a plain list, a missing module or a non-module), one hop style for the whole ring or one per hop."""
    k = rng.choice([1, 2, 2, 3, 3, 4])
    ring = rng.sample(MODULES, k)
    closed = rng.random() < 0.7
    styles = HOPS_DIRECT + HOPS_ALIASED + HOPS_OTHER
    pool = rng.choice([HOPS_DIRECT, HOPS_ALIASED, HOPS_ALIASED, styles, styles])
    uniform = rng.choice(pool) if rng.random() < 0.4 else None
    stmts: dict[str, list[tuple[str, dict]]] = {m: [] for m in MODULES}
    tail: dict[str, list[tuple[str, dict]]] = {m: [] for m in MODULES}
    for i, mod in enumerate(ring):
        own = OWN[i]
        name = NAMES[i]
        body = stmts[mod]
        body.append((rng.choice([f"def {own}(): ...", f"class {own}: ...", f"{own} = 1"]), {"t": "def", "name": own}))
        last = i == len(ring) - 1
        if last and not closed:
            end = rng.random()
            if end < 0.4:
                body.append((f"__all__ = [{own!r}]", {"t": "all", "names": [own]}))
                continue
            nxt = rng.choice(MISSING_MODULES) if end < 0.7 else f"{mod}.{own}"   # a missing module / a function, class or attribute
        else:
            nxt = ring[(i + 1) % len(ring)]
        style = uniform or rng.choice(pool)
        facade = rng.choice([m for m in MODULES if m != mod] if rng.random() < 0.9 else MODULES)
        bare = False
        if style in ("from", "relative") and "." in nxt:
            pkg, leaf = nxt.rsplit(".", 1)
            rel = _relative(mod, pkg) if style == "relative" else None
            if rel is not None:
                imp = (f"from {'.' * rel} import {leaf}", {"t": "from", "rel": rel, "module": "", "name": leaf})
            else:
                imp = (f"from {pkg} import {leaf}", {"t": "from", "module": pkg, "name": leaf})
            ref = leaf
        elif style in ("from", "relative", "import"):
            imp = (f"import {nxt}", {"t": "import", "module": nxt, "as": None})
            ref = nxt
        elif style == "import-as":
            imp = (f"import {nxt} as {name}", {"t": "import", "module": nxt, "as": name})
            ref = name
        elif style == "all-name":
            imp = (f"from {nxt} import __all__ as {name}", {"t": "from", "module": nxt, "name": "__all__", "as": name})
            ref, bare = name, True
        elif style == "unbound":
            imp = None
            ref = rng.choice([name, nxt, f"{facade}.{name}"])
        elif style == "facade-cyclic":
            # the name the module is reached through is an alias cycle (two facades importing it from each other)
            second = rng.choice([m for m in MODULES if m not in (mod, facade)])
            tail[facade].append((f"from {second} import {name}", {"t": "from", "module": second, "name": name}))
            tail[second].append((f"from {facade} import {name}", {"t": "from", "module": facade, "name": name}))
            if rng.random() < 0.5:
                imp = (f"from {facade} import {name}", {"t": "from", "module": facade, "name": name})
                ref = name
            else:
                imp = (f"import {facade}", {"t": "import", "module": facade, "as": None})
                ref = f"{facade}.{name}"
        else:
            tail[facade].append(_bind(rng, facade, name, nxt))
            if style == "facade":
                imp = (f"from {facade} import {name}", {"t": "from", "module": facade, "name": name})
                ref = name
            elif style == "facade-as":
                other = rng.choice(NAMES)
                imp = (f"from {facade} import {name} as {other}", {"t": "from", "module": facade, "name": name, "as": other})
                ref = other
            elif style == "facade-dotted":
                imp = (f"import {facade}", {"t": "import", "module": facade, "as": None})
                ref = f"{facade}.{name}"
            elif style == "facade-chain":
                second = rng.choice([m for m in MODULES if m not in (mod, facade)])
                tail[second].append((f"from {facade} import {name}", {"t": "from", "module": facade, "name": name}))
                imp = (f"from {second} import {name}", {"t": "from", "module": second, "name": name})
                ref = name
            elif style == "facade-all-name":
                imp = (f"from {facade}.{name} import __all__ as {name}", {"t": "from", "module": f"{facade}.{name}", "name": "__all__", "as": name})
                ref, bare = name, True
            else:   # facade-wildcard: the name only arrives through a wildcard import of the facade
                imp = (f"from {facade} import *", {"t": "wild", "module": facade})
                ref = name
        expr = ref if bare else f"{ref}.__all__"
        form = rng.choice(COMPOSITIONS)
        composed = compose_all(rng, [own], expr, form)
        desc = {"t": "allref", "ref": ref, "bare": bare, "names": [own]}
        if form == "augment" and imp is not None:
            # the runtime-valid spelling of a circular composition: assign, import, augment
            first, second_ = composed.split("\n")
            body.append((first, {"t": "all", "names": [own]}))
            body.append(imp)
            body.append((second_, desc))
        else:
            if imp is not None:
                body.append(imp)
            if form == "augment-only" and rng.random() < 0.7:
                body.append((f"__all__ = [{own!r}]", {"t": "all", "names": [own]}))
            body.append((composed, desc))
        if "." in nxt and nxt in MODULES and rng.random() < 0.3:
            body.insert(rng.randrange(len(body) + 1), (f"from {nxt} import *", {"t": "wild", "module": nxt}))
    files: dict[str, str] = {}
    descs: dict[str, list[dict]] = {}
    for mod in MODULES:
        both = stmts[mod] + tail[mod] if rng.random() < 0.5 else tail[mod] + stmts[mod]
        if not both and rng.random() < 0.3:
            both = [gen_statement(rng, mod, True)]
        files[mod_file(mod)] = "".join(s + "\n" for s, _ in both)
        descs[mod] = [d for _, d in both]
    return files, descs


def bindings(descs: dict[str, list[dict]]) -> dict[str, dict[str, str | None]]:
    """Per module: name -> dotted path it is an alias of (None for a local definition); the last binding wins."""
    out: dict[str, dict[str, str | None]] = {}
    for mod, ds in descs.items():
        table: dict[str, str | None] = {}
        for d in ds:
            if d["t"] == "def":
                table[d["name"]] = None
            elif d["t"] == "from":
                base = absolute(mod, d)
                if base is not None:
                    table[d.get("as") or d["name"]] = f"{base}.{d['name']}" if base else d["name"]
            elif d["t"] == "import":
                if d.get("as"):
                    table[d["as"]] = d["module"]
                else:
                    top = d["module"].split(".")[0]
                    table[top] = top
        out[mod] = table
    return out


def follow(path: str, table: dict[str, dict[str, str | None]], budget: int = 12) -> tuple[str | None, bool]:
    """Walk a dotted path down the static module tree, going through name bindings where a component is not a submodule.
    Returns (module reached or None, whether an alias binding was crossed)."""
    crossed = False
    while budget > 0:
        budget -= 1
        parts = path.split(".")
        if parts[0] not in table:
            return None, crossed
        cur = parts[0]
        for i, comp in enumerate(parts[1:], 1):
            if f"{cur}.{comp}" in table:
                cur = f"{cur}.{comp}"
                continue
            if comp in table[cur] and table[cur][comp] is not None:
                crossed = True
                path = ".".join([table[cur][comp], *parts[i + 1:]])
                break
            return None, crossed
        else:
            return cur, crossed
    return None, crossed


def export_hops(descs: dict[str, list[dict]]) -> list[tuple[str, str | None, bool, str | None]]:
    """For every ``__all__`` composition: (module holding it, module whose ``__all__`` it names or None, whether naming it
    crosses an alias *after* the first name was looked up in the module's own scope -- i.e. the dotted path that names the
    other module is not that module's real path, that dotted path)."""
    table = bindings(descs)
    hops = []
    for mod, ds in descs.items():
        for d in ds:
            if d["t"] != "allref":
                continue
            if not d["ref"]:
                hops.append((mod, mod, False, mod))
                continue
            head, _, rest = d["ref"].partition(".")
            scope = table.get(mod, {})
            if head in scope:
                start = scope[head] if scope[head] is not None else f"{mod}.{head}"
            else:
                start = head
            full = start + (f".{rest}" if rest else "")
            if d["bare"]:   # the name stands for the list: its target is `<module path>.__all__`
                if "." not in full:
                    hops.append((mod, None, False, None))
                    continue
                full = full.rsplit(".", 1)[0]
            reached, crossed = follow(full, table)
            hops.append((mod, reached, crossed, full))
    return hops


def export_cycles(descs: dict[str, list[dict]], loaded: set[str] | None = None) -> tuple[bool, bool]:
    """(some cycle of ``__all__`` compositions exists, some such cycle has every hop crossing an alias)."""
    hops = [(a, b, c) for a, b, c, _ in export_hops(descs) if b is not None and (loaded is None or (a.split(".")[0] in loaded and b.split(".")[0] in loaded))]

    def cyclic(edges: list[tuple[str, str]]) -> bool:
        nxt: dict[str, set[str]] = {}
        for a, b in edges:
            nxt.setdefault(a, set()).add(b)
        for start in nxt:
            seen, todo = set(), list(nxt[start])
            while todo:
                m = todo.pop()
                if m == start:
                    return True
                if m not in seen:
                    seen.add(m)
                    todo.extend(nxt.get(m, ()))
        return False

    return cyclic([(a, b) for a, b, _ in hops]), cyclic([(a, b) for a, b, c in hops if c])


def gen_extchain(rng: random.Random) -> tuple[dict[str, str], list[str]]:
    """Re-export chains across 3-4 top-level packages of which only a prefix is loaded explicitly: every further hop needs
    resolve_aliases(external=True) to pull in one more package (a package loaded *during* resolution carries aliases and
    wildcards of its own).  Returns (files, packages in chain order)."""
    k = rng.randint(3, 4)
    pkgs = ["p", "q", "r", "t"][:k]
    names = rng.sample(NAMES, rng.randint(1, 2))
    files: dict[str, str] = {}
    for i, pk in enumerate(pkgs):
        lines = []
        if i == k - 1:
            for n in names:
                lines.append(rng.choice([f"def {n}(): ...", f"class {n}: ...", f"{n} = 1"]))
            if rng.random() < 0.3:
                lines.append(f"from nowhere import {rng.choice(NAMES)} as ghost")
        else:
            nxt = pkgs[i + 1]
            in_sub = rng.random() < 0.3          # the hop sits in a submodule the package wildcard-imports / re-exports
            hop = []
            for n in names:
                hop.append(rng.choice([f"from {nxt} import {n}", f"from {nxt} import {n} as {n}", f"from {nxt} import *",
                                       f"import {nxt}\nfrom {nxt} import {n}", f"from {nxt} import {n} as alias_{n}\n{n} = alias_{n}" if False else f"from {nxt} import {n}"]))
            if in_sub:
                files[f"{pk}/hop.py"] = "\n".join(hop) + "\n"
                lines.append(rng.choice([f"from {pk}.hop import *", *(f"from {pk}.hop import {n}" for n in names)]))
            else:
                lines += hop
            if rng.random() < 0.25:
                lines.append(f"__all__ = {names!r}")
        files[f"{pk}/__init__.py"] = "\n".join(lines) + "\n"
    return files, pkgs
