"""C18 generator: dataclass hierarchies (text).  Knows nothing about Griffe."""
from __future__ import annotations

import itertools
import random

HEADER = ("import dataclasses\nimport dataclasses as d\nimport typing\nimport typing as t\n"
          "from dataclasses import KW_ONLY, InitVar, dataclass, field\n"
          "from dataclasses import dataclass as dc, field as fld\n"
          "from dataclasses import KW_ONLY as KW, InitVar as IV\n"
          "from typing import Annotated, ClassVar, Final\nfrom typing import ClassVar as CV\n\n")
FUTURE = "from __future__ import annotations\n"      # postponed evaluation: every annotation of the module is stored as its text

# how the special forms and ordinary types are written; CPython decides what a spelling means in a given module
CLASSVAR_NAMES = ["ClassVar", "ClassVar", "ClassVar", "typing.ClassVar", "t.ClassVar", "CV"]
INITVAR_NAMES = ["InitVar", "InitVar", "InitVar", "dataclasses.InitVar", "d.InitVar", "IV"]
KW_ONLY_NAMES = ["KW_ONLY", "KW_ONLY", "KW_ONLY", "dataclasses.KW_ONLY", "d.KW_ONLY", "KW"]
ORDINARY = ["int", "str", "list", "int | None", "list[int]", "list['int']", "t.Optional[int]", "Final[int]", "Final", "typing.Final[str]"]
# ordinary types (for CPython) that mention the special forms, or nest them where dataclasses does not look
MENTIONING = ["Annotated[int, 'ClassVar']", "Annotated[ClassVar[int], 1]", "Annotated[int, KW_ONLY]", "list[ClassVar]", "dict[str, KW_ONLY]",
              "tuple[InitVar, ...]", "Final[ClassVar[int]]", "t.Annotated[t.ClassVar[int], 'x']"]


def header(rng: random.Random) -> str:
    """The imports of a generated module; 35%: with postponed evaluation of annotations (decided per module)."""
    return (FUTURE if rng.random() < 0.35 else "") + HEADER


def quoted(rng: random.Random, text: str, chance: float = 0.25) -> str:
    """The annotation, or (``chance``) the annotation written wholly as a string literal."""
    if rng.random() >= chance:
        return text
    if rng.random() < 0.12:
        text = rng.choice([text + " ", text.replace("[", " [", 1), text + " | None"])    # still starts with the same (dotted) name
    return '"' + text + '"'


def ordinary_ann(rng: random.Random) -> str:
    return quoted(rng, rng.choice(MENTIONING if rng.random() < 0.12 else ORDINARY), 0.2)


def special_ann(rng: random.Random, names: list[str], args: list[str]) -> str:
    return quoted(rng, rng.choice(names) + rng.choice(args), 0.3)


def marker_line(rng: random.Random) -> str:
    return f"_: {special_ann(rng, KW_ONLY_NAMES, [''])}"


FIELD_NAMES = ["a", "b", "c", "e", "g", "h"]
FIELD_CALLS = ["field", "field", "field", "dataclasses.field", "fld", "d.field"]
DECORATOR_NAMES = ["dataclass", "dataclass", "dataclasses.dataclass", "dc", "d.dataclass"]
INIT_KW = list(itertools.product([None, True, False], [None, True, False]))   # (init, kw_only)


def decorator(rng: random.Random, init, kw_only, frozen) -> str:  # noqa: ANN001
    name = rng.choice(DECORATOR_NAMES)
    args = []
    for key, val in (("init", init), ("kw_only", kw_only), ("frozen", frozen)):
        if val is not None:
            args.append(f"{key}={val}")
    rng.shuffle(args)
    if args:
        return f"@{name}({', '.join(args)})"
    return f"@{name}()" if rng.random() < 0.3 else f"@{name}"


def field_call(rng: random.Random, opts: dict) -> str:
    items = [f"{k}={v}" for k, v in opts.items()]
    return f"{rng.choice(FIELD_CALLS)}({', '.join(items)})"


def gen_field(rng: random.Random, name: str, want_default: bool, plain_only: bool = False) -> tuple[str, bool, bool]:
    """One dataclass field line.  Returns (text, has_default, is_positional_candidate).

    ``plain_only``: undecorated classes only get `x: T`, `x: T = v` and ClassVar lines (a Field object left as a class
    attribute of a non-dataclass is picked up by subclasses through getattr - not a situation the property is about)."""
    r = rng.random()
    ann = ordinary_ann(rng)
    if plain_only:
        r = r * 0.22 if r < 0.85 else 0.95
    if r < 0.22:
        return (f"{name}: {ann} = 1", True, True) if want_default else (f"{name}: {ann}", False, True)
    if r < 0.32:
        return f"{name}: {ann} = field()", False, True
    if r < 0.42:
        return f"{name}: {ann} = {field_call(rng, {'default': rng.choice(['1', 'None', repr('s')])})}", True, True
    if r < 0.50:
        return f"{name}: list = {field_call(rng, {'default_factory': 'list'})}", True, True
    if r < 0.58:
        opts = {"init": "False"}
        if rng.random() < 0.6:
            opts["default"] = "0"
        return f"{name}: {ann} = {field_call(rng, opts)}", True, False
    if r < 0.76:
        opts = {"kw_only": rng.choice(["True", "False"])}
        has = want_default or rng.random() < 0.4
        if has:
            if rng.random() < 0.3:
                opts["default_factory"] = "list"
            else:
                opts["default"] = "2"
        if rng.random() < 0.3:
            opts = dict(reversed(list(opts.items())))
        return f"{name}: {ann} = {field_call(rng, opts)}", has, opts["kw_only"] == "False"
    if r < 0.84:
        opts = {rng.choice(["repr", "compare", "init"]): "True"} if rng.random() < 0.5 else {"repr": "False"}
        if want_default:
            opts["default"] = "3"
        return f"{name}: {ann} = {field_call(rng, opts)}", want_default, True
    if r < 0.92:
        iv = special_ann(rng, INITVAR_NAMES, ["[int]", "[int]", "[str]", "['int']", ""])
        return (f"{name}: {iv} = 7", True, True) if want_default else (f"{name}: {iv}", False, True)
    cv = special_ann(rng, CLASSVAR_NAMES, ["[int]", "[int]", "[int]", "['int']", "[list[int]]", ""])
    return (f"{name}: {cv} = 9" if rng.random() < 0.7 else f"{name}: {cv}"), False, False


# a second statement binding (or unbinding) the name of a field, after its declaration ...
REBIND_AFTER = ["declare", "declare", "declare", "declare", "assign", "assign", "assign", "assign_field", "chain", "tuple", "augment",
                "bare", "def", "property", "class", "del"]
# ... or before it
REBIND_BEFORE = ["assign", "assign", "def", "property", "class"]


def rebinding(rng: random.Random, name: str, form: str, idx: int) -> str:
    if form == "declare":       # a second annotated declaration, of any field form
        return gen_field(rng, name, rng.random() < 0.7)[0]
    if form == "bare":
        return f"{name}: {rng.choice([ordinary_ann(rng), ordinary_ann(rng), special_ann(rng, INITVAR_NAMES, ['[int]'])])}"
    return {"assign": f"{name} = {rng.choice(['5', 'None'])}",
            "assign_field": f"{name} = {field_call(rng, {'default': '6'})}",
            "chain": f"{name} = w{idx} = 0",
            "tuple": f"w{idx}, {name} = 5, 6",
            "augment": f"{name} += 1",
            "def": f"def {name}(self): ...",
            "property": f"@property\ndef {name}(self):\n    return 1",
            "class": f"class {name}: ...",
            "del": f"del {name}"}[form]


def rebind_one(rng: random.Random, body: list[str], names: list[str], idx: int) -> None:
    """Bind the name of one declared field a second time, anywhere after (75%) or before its declaration: the statements may end
    up on either side of a KW_ONLY marker and of the other fields."""
    name = rng.choice(names)
    at = next(i for i, ln in enumerate(body) if ln.startswith(f"{name}:"))
    if rng.random() < 0.75:
        body.insert(rng.randint(at + 1, len(body)), rebinding(rng, name, rng.choice(REBIND_AFTER), idx))
    else:
        body.insert(rng.randint(0, at), rebinding(rng, name, rng.choice(REBIND_BEFORE), idx))


def gen_class(rng: random.Random, idx: int, bases: list[str], mode: str, init, kw_only, frozen,  # noqa: ANN001
              inherited_default: bool, inherited_names: list[str]) -> tuple[list[str], bool, list[str]]:
    """Lines of one class statement.  mode: dataclass / plain / handinit."""
    lines = []
    if mode in ("dataclass", "handinit"):
        lines.append(decorator(rng, init, kw_only, frozen))
    lines.append(f"class C{idx}" + (f"({', '.join(bases)})" if bases else "") + ":")
    body: list[str] = []
    seen_default = inherited_default
    after_marker = bool(kw_only)
    own_names: list[str] = []
    if mode != "plain" or rng.random() < 0.3:
        nfields = rng.choice([0, 1, 2, 2, 3, 3, 4, 5])
        names = rng.sample(FIELD_NAMES, min(nfields, len(FIELD_NAMES)))
        if inherited_names and rng.random() < 0.35 and names:
            names[rng.randrange(len(names))] = rng.choice(inherited_names)     # override an inherited field
            names = list(dict.fromkeys(names))
        marker_at = rng.randrange(len(names) + 1) if rng.random() < 0.25 and mode != "plain" else None
        for i, name in enumerate(names):
            if marker_at == i:
                body.append(marker_line(rng))
                after_marker = True
            want_default = (seen_default and not after_marker and rng.random() < 0.93) or rng.random() < 0.3
            text, has_default, positional = gen_field(rng, name, want_default, plain_only=mode == "plain")
            body.append(text)
            own_names.append(name)
            if has_default and positional and not after_marker:
                seen_default = True
        if marker_at == len(names):
            body.append(marker_line(rng))
        if own_names and mode != "plain" and rng.random() < 0.3:
            rebind_one(rng, body, own_names, idx)
            if rng.random() < 0.15:
                rebind_one(rng, body, own_names, idx)
    extras = []
    if rng.random() < 0.25:
        extras.append("@property\ndef p(self) -> int:\n    return 1")
    if rng.random() < 0.1:
        extras.append("@property\ndef q(self):\n    return 2\n@q.setter\ndef q(self, value): ...")
    if rng.random() < 0.3:
        extras.append(f"u{idx} = 5")
    if rng.random() < 0.3:
        extras.append("def m(self, z=0): ...")
    if rng.random() < 0.15:
        extras.append("def __post_init__(self, *args): ...")
    if mode == "handinit" or (mode == "plain" and rng.random() < 0.15):
        extras.append(rng.choice(["def __init__(self, p, /, q=1, *r, s, **t): ...", "def __init__(self): ...",
                                  "def __init__(self, only: int) -> None:\n    self.only = only"]))
    rng.shuffle(extras)
    for extra in extras:
        body.insert(rng.randrange(len(body) + 1), extra)      # (blocks: a multi-line extra stays in one piece)
    if not body:
        body = ["pass"] if rng.random() < 0.5 else ['"""doc"""']
    lines.extend("    " + ln for block in body for ln in block.split("\n"))
    return lines, seen_default, own_names


UNIT_NAMES = ["c18ua", "c18ub", "c18uc"]
UNIT_FORMS = ["module", "package", "submodule", "reexport"]
# module: <unit>.py | package: <unit>/__init__.py holds the classes | submodule: <unit>/__init__.py is empty, the classes live in
# <unit>/core.py | reexport: like submodule, and <unit>/__init__.py re-exports the classes of core


def _import_of(rng: random.Random, unit: str, form: str) -> tuple[str, str]:
    """How a dependent unit reaches the classes of ``unit``: (import line with a {} for the imported names or None, base prefix)."""
    styles = []
    if form in ("module", "package", "reexport"):
        styles += [(f"from {unit} import {{}}", ""), (f"import {unit}", f"{unit}."), (f"import {unit} as x{unit[-1]}", f"x{unit[-1]}.")]
    if form in ("submodule", "reexport"):
        styles += [(f"from {unit}.core import {{}}", ""), (f"import {unit}.core", f"{unit}.core."),
                   (f"import {unit}.core as x{unit[-1]}", f"x{unit[-1]}."), (f"from {unit} import core as x{unit[-1]}", f"x{unit[-1]}.")]
    return rng.choice(styles)


def gen_case(rng: random.Random, combo: tuple | None = None) -> dict:
    """A hierarchy of 2..5 classes (depth <= 3): in one module, spread over two modules of a package, or spread over 2..3
    separately loaded top-level packages / modules (a *loading session*: dependencies first, one loader or one shared collection)."""
    n = rng.randint(2, 5)
    depth: list[int] = []
    specs = []
    all_frozen = rng.random() < 0.12
    layout = rng.random()
    two_modules = layout < 0.2
    multi = 0.2 <= layout < 0.46
    nunits = 1
    if multi:
        nunits = min(n, rng.choice([2, 2, 3]))
    home = [rng.randrange(2) if two_modules else rng.randrange(nunits) if multi else 0 for _ in range(n)]
    if two_modules or multi:
        home[0] = 0
    if multi and nunits - 1 not in home:
        home[-1] = nunits - 1            # the last unit is never empty (the forced init/kw_only class then lives in a dependent unit)
    if multi and nunits == 3 and 1 not in home:
        home[rng.randrange(1, n - 1)] = 1
    forms = [rng.choice(UNIT_FORMS) for _ in range(nunits)] if multi else []
    reach: dict[tuple[int, int], tuple[str, str]] = {}
    has_default: list[bool] = []
    names_of: list[list[str]] = []
    dc_like: list[bool] = []
    texts: list[list[str]] = []
    for i in range(n):
        cands = [j for j in range(i) if depth[j] < 2 and (home[j] <= home[i])]
        k = 0 if not cands else rng.choice([0, 1, 1, 1, 2])
        bases_idx = rng.sample(cands, min(k, len(cands)))
        depth.append(1 + max((depth[j] for j in bases_idx), default=-1))
        r = rng.random()
        inherits_dc = any(dc_like[j] for j in bases_idx)
        if r < 0.62:
            mode = "dataclass"
        elif r < 0.72:
            mode = "handinit"
        else:
            mode = "plain"          # undecorated: a subclass of a dataclass, or a non-dataclass class
        init, kw_only = combo if (combo is not None and i == n - 1) else rng.choice(INIT_KW) if rng.random() < 0.55 else (None, None)
        if combo is not None and i == n - 1:
            mode = "dataclass"
        frozen = True if all_frozen else (rng.choice([True, False]) if rng.random() < 0.05 else None)
        inh_default = any(has_default[j] for j in bases_idx)
        inh_names = [nm for j in bases_idx for nm in names_of[j]]
        base_texts = []
        for j in bases_idx:
            prefix = ""
            if multi and home[j] != home[i]:
                key = (home[i], home[j])
                if key not in reach:
                    reach[key] = _import_of(rng, UNIT_NAMES[home[j]], forms[home[j]])
                prefix = reach[key][1]
            base_texts.append(f"{prefix}C{j}")
        lines, seen_default, own = gen_class(rng, i, base_texts, mode, init, kw_only, frozen, inh_default, inh_names)
        has_default.append(seen_default if mode != "plain" else inh_default)
        names_of.append(list(dict.fromkeys(inh_names + (own if mode != "plain" else []))))
        dc_like.append(mode != "plain" or inherits_dc)
        texts.append(lines)
        specs.append({"bases": bases_idx, "mode": mode})
    nested = not two_modules and not multi and rng.random() < 0.12
    if multi:
        return _multi_unit_case(rng, n, nunits, home, forms, reach, specs, texts)
    if two_modules:
        # the module holding the bases is processed first (m0) or last (m1) when the package is walked in name order
        mod = ["m0", "m1"] if rng.random() < 0.5 else ["m1", "m0"]
        files = {"pk/__init__.py": "", "pk/m0.py": header(rng), "pk/m1.py": header(rng)}
        imported = sorted({j for i in range(n) if home[i] == 1 for j in specs[i]["bases"] if home[j] == 0})
        if imported:
            form = rng.choice(["from pk.{} import {}", "from .{} import {}"])
            files[f"pk/{mod[1]}.py"] += form.format(mod[0], ", ".join(f"C{j}" for j in imported)) + "\n\n"
        for i in range(n):
            files[f"pk/{mod[home[i]]}.py"] += "\n".join(texts[i]) + "\n\n"
        return {"files": files, "package": "pk"}
    src = header(rng)
    for i in range(n):
        src += "\n".join(texts[i]) + "\n\n"
    if nested:
        inner, _d, _o = gen_class(rng, 9, [], "dataclass", None, rng.choice([None, True]), None, False, [])
        src += "class Outer:\n" + "\n".join("    " + ln for ln in inner) + "\n\n"
    return {"files": {"m.py": src}, "package": "m"}


def _multi_unit_case(rng: random.Random, n: int, nunits: int, home: list[int], forms: list[str],  # noqa: PLR0913
                     reach: dict, specs: list[dict], texts: list[list[str]]) -> dict:
    files: dict[str, str] = {}
    where = []
    for u in range(nunits):
        name, form = UNIT_NAMES[u], forms[u]
        rel = {"module": f"{name}.py", "package": f"{name}/__init__.py"}.get(form, f"{name}/core.py")
        where.append(rel)
        head = header(rng)
        for (dep, src), (line, _prefix) in sorted(reach.items()):
            if dep == u:
                names = sorted({f"C{j}" for i in range(n) if home[i] == u for j in specs[i]["bases"] if home[j] == src})
                head += line.format(", ".join(names)) + "\n"
        files[rel] = head + "\n"
    for i in range(n):
        files[where[home[i]]] += "\n".join(texts[i]) + "\n\n"
    for u in range(nunits):
        name, form = UNIT_NAMES[u], forms[u]
        own = [f"C{i}" for i in range(n) if home[i] == u]
        if form == "submodule" or (form == "reexport" and not own):
            files[f"{name}/__init__.py"] = ""
        elif form == "reexport":
            files[f"{name}/__init__.py"] = rng.choice([f"from {name}.core import {{}}\n", "from .core import {}\n"]).format(", ".join(own))
    # a loading order in which every unit comes after the units it imports from (random among the admissible ones)
    deps = {u: {src for (dep, src) in reach if dep == u} for u in range(nunits)}
    order: list[int] = []
    while len(order) < nunits:
        ready = [u for u in range(nunits) if u not in order and deps[u] <= set(order)]
        order.append(rng.choice(ready))
    return {"files": files, "package": "multi", "load": [UNIT_NAMES[u] for u in order],
            "loaders": rng.choice(["same", "same", "shared-collections"])}
