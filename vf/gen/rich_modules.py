"""Generator of *rich* packages for the serialisation properties (C08, C09).

Every model field and every expression class must occur in the trees that are serialised:

* flavour ``static``      — source that only has to *parse*: every expression slot (attribute value/annotation, parameter
  annotation/default, return annotation, decorator, base class) is filled from the full expression grammar of
  ``vf.gen.exprs.ExprGen(clean=False)`` (every node class of ``_node_map``).  Loaded by the visitor only.
* flavour ``importable``  — source CPython really imports (needed for ``force_inspection=True``): evaluated slots come from
  a pool of side-effect-free evaluable expressions (still one per expression class), annotations are arbitrary grammar
  expressions kept unevaluated by ``from __future__ import annotations``.  Loaded by both agents.
* namespace layouts        — a package without ``__init__`` split over two search paths, with regular sub-packages,
  plain modules and a nested namespace portion.

The package layout always contains: a top ``__init__`` (docstring, ``__all__``, re-exports = aliases that resolve inside the
package, imports of stdlib / unknown names = aliases that stay unresolved, a wildcard import), a ``core`` module, a
sub-package with a leaf module.  Names of ``exprs.NAMES`` are bound (as classes, values, aliases, nested classes) so that
names inside expressions resolve to something else than themselves and scope matters.
"""
from __future__ import annotations

import ast
import random

from vf.gen.exprs import ExprGen

# evaluable, side-effect free, one (or more) per expression class
SAFE_VALUES = [
    "1", "'s'", "None", "(1, 2)", "[1, 2]", "{'k': 1}", "{1, 2}", "1 + 2", "-1", "not True", "1 if True else 2",
    "lambda p, /, q=1, *r, k, **w: p", "lambda: 0", "lambda *a, k=2: a", "[i for i in range(3)]", "{i: i for i in range(2)}",
    "{i for i in range(2) if i}", "f'{1}a{2!r:>4}'", "1 < 2 <= 3", "True and False", "len('ab')", "dict(a=1, **{})",
    "max(*[1, 2])", "'x'.join(['a'])", "(1).real", "[1, 2][0]", "[1, 2, 3][::2]", "[1, 2, 3][0:2]", "b'x'", "...", "1.5", "2j",
    "list(i for i in range(2))", "[*range(2)]", "{**{}}", "{'a': 1, **{}}", "(1,)", "()", "int", "str.upper", "[[1, 2], [3]][0][1:]",
    "'%s' % 1", "2 ** 8", "~1", "1 if 0 else (2 if 1 else 3)", "(lambda: (yield))", "[j for i in [[1]] for j in i]",
    "{(1, 2): [3]}", "'a' 'b'", "-(1 + 2)", "1 is not None", "1 in (1, 2)", "dict(a=[i for i in range(2)])",
]
SAFE_TYPES = ["int", "str", "float", "bytes", "bool", "object", "list", "dict", "tuple"]
DOCSTRINGS = [
    "Summary line.",
    "Summary.\n\nLonger description\nover two lines.",
    "Multi.\n\n    indented block\n\nend",
    "Unicode \u00e9t\u00e9 \u2603 and escapes \\\\n.",
    "Summary.\n\nParameters:\n    a: First.\n    b (int): Second.\n\nReturns:\n    Something.\n",
    "Summary.\n\nArgs:\n    x: The x.\n\nKeyword Args:\n    k: The k.\n\nRaises:\n    ValueError: When bad.\n\nWarns:\n    UserWarning: Hm.\n\n"
    "Yields:\n    int: Items.\n\nReceives:\n    str: Sent.\n\nExamples:\n    >>> 1 + 1\n    2\n",
    "Summary.\n\nAttributes:\n    attr: An attribute.\n\nFunctions:\n    f: A function.\n\nClasses:\n    C: A class.\n\nModules:\n    m: A module.\n",
    "Summary.\n\nNote:\n    An admonition.\n\nDeprecated:\n    1.2: Do not use.\n\nOther Parameters:\n    z: Zed.\n",
    "Summary.\n\nParameters\n----------\na : int\n    First.\n\nReturns\n-------\nint\n    Value.\n\nSee Also\n--------\nother : thing\n",
    "Summary.\n\n:param a: First.\n:type a: int\n:returns: Value.\n:rtype: int\n:raises ValueError: Bad.\n",
    "Summary.\n\nDeprecated\n----------\n1.2\n    Do not use.\n\nMethods\n-------\nf()\n    A method.\n\nAttributes\n----------\nx : int\n    Attr.\n\n"
    "Warns\n-----\nUserWarning\n    Hm.\n\nExamples\n--------\n>>> 1\n1\n",
    "x",
    "Trailing spaces   \n\n  and odd indent\n",
]


def _q(doc: str, ind: str) -> str:
    """A docstring statement (triple-quoted when needed) at indentation ``ind``."""
    if "\n" in doc:
        body = doc.replace("\\", "\\\\").replace('"""', '\\"\\"\\"')
        lines = body.split("\n")
        text = lines[0] + "".join("\n" + (ind + ln if ln else "") for ln in lines[1:])
        return f'{ind}"""{text}\n{ind}"""\n'
    return f"{ind}{doc!r}\n" if '"' in doc or "\\" in doc else f'{ind}"""{doc}"""\n'


class RichGen:
    def __init__(self, rng: random.Random, name: str, *, flavour: str = "static", depth: int = 2) -> None:
        self.rng = rng
        self.name = name
        self.flavour = flavour
        self.depth = depth
        self.eg = ExprGen(rng, clean=False)
        self.uid = 0
        self.features: set[str] = set()
        self.class_alias = (f"{name}.sub.leaf", "LEAF_VALUE")

    # -- expressions ------------------------------------------------------------------------------------------------
    def _grammar(self, *, annotation: bool = False) -> str:
        for _ in range(30):
            tree = self.eg.expr(self.rng.randint(1, self.depth))
            if any(isinstance(n, ast.Await) for n in ast.walk(tree)):
                continue  # not in _node_map: the visitor stores None for the whole slot (C03's business, and it breaks loading)
            if annotation and self.flavour == "importable" and any(
                    isinstance(n, (ast.Yield, ast.YieldFrom, ast.Await, ast.NamedExpr)) for n in ast.walk(tree)):
                continue  # CPython refuses these inside (postponed) annotations
            try:
                text = ast.unparse(tree)
                ast.parse("(" + text + ")", mode="eval")
            except Exception:  # noqa: BLE001, S112
                continue
            return "(" + text + ")"
        return "int"

    def ann(self) -> str:
        r = self.rng.random()
        if r < 0.25:
            return self.rng.choice(SAFE_TYPES + ["T", "U", "a", "core.Base", "Optional[List[T]]", "List[List[U]]", "typing.Dict[str, a]",
                                                 "'T'", "Union[T, None]", "t.Callable[[T, int], U]", "Optional[core.Base]", "tuple[T, ...]"])
        return self._grammar(annotation=True)

    def value(self) -> str:
        if self.flavour == "importable":
            return self.rng.choice(SAFE_VALUES)
        r = self.rng.random()
        if r < 0.15:
            return self.rng.choice(SAFE_VALUES)
        return self._grammar()

    def fresh(self, prefix: str) -> str:
        self.uid += 1
        return f"{prefix}{self.uid}"

    # -- statements -------------------------------------------------------------------------------------------------
    def docstring(self, ind: str, p: float = 0.6) -> str:
        if self.rng.random() < p:
            self.features.add("docstring")
            return _q(self.rng.choice(DOCSTRINGS), ind)
        return ""

    def attribute(self, ind: str, name: str | None = None) -> str:
        r = self.rng
        name = name or self.fresh("v")
        k = r.random()
        if k < 0.35:
            src = f"{ind}{name} = {self.value()}\n"
        elif k < 0.6:
            src = f"{ind}{name}: {self.ann()} = {self.value()}\n"
        elif k < 0.72:
            src = f"{ind}{name}: {self.ann()}\n"
        elif k < 0.8:
            src = f"{ind}{name} = (\n{ind}    {self.value()}\n{ind})\n"
        elif k < 0.88:
            other = self.fresh("v")
            src = f"{ind}{name} = {other} = {self.value()}\n"
        elif k < 0.94 and self.flavour == "static":
            other = self.fresh("v")
            src = f"{ind}{name}, {other} = {self.value()}\n"
        else:
            src = f"{ind}{name}: {self.ann()} = {self.value()}  # comment\n{ind}{name} += 1\n" if self.flavour == "static" else \
                f"{ind}{name} = 1\n{ind}{name} += 1\n"
        self.features.add("attribute")
        return src + self.docstring(ind, 0.4)

    def params(self, first: str | None = None) -> str:
        r = self.rng
        n = r.randint(0, 5)
        names = [self.fresh("p") for _ in range(n)]
        cuts = sorted(r.randint(0, n) for _ in range(4))
        po, pk = names[: cuts[0]], names[cuts[0]: cuts[1]]
        vp = names[cuts[1]: cuts[2]][:1]
        ko = names[cuts[1]: cuts[2]][1:] + names[cuts[2]: cuts[3]]
        vk = names[cuts[3]:][:1]
        if first:
            (po if po else pk).insert(0, first)

        def one(nm: str, default: bool, stars: str = "") -> str:
            txt = stars + nm
            annotated = r.random() < 0.6 and nm != first
            if annotated:
                txt += ": " + self.ann()
            if default:
                txt += (" = " if annotated else "=") + self.value()
            return txt

        parts = []
        seen_default = False
        for nm in po + pk:
            d = nm != first and (seen_default or r.random() < 0.4)
            seen_default = seen_default or d
            parts.append(one(nm, d))
            if po and nm == po[-1]:
                parts.append("/")
        if vp:
            parts.append(one(vp[0], False, "*"))
        elif ko:
            parts.append("*")
        for nm in ko:
            parts.append(one(nm, r.random() < 0.5))
        if vk:
            parts.append(one(vk[0], False, "**"))
        if len(parts) >= 3 and r.random() < 0.3:
            return "\n        " + ",\n        ".join(parts) + ",\n    "
        return ", ".join(parts)

    def decorators(self, ind: str, pool: list[str], maxn: int = 2) -> str:
        r = self.rng
        out = ""
        for _ in range(r.choice([0, 0, 1, 1, maxn])):
            if self.flavour == "static" and r.random() < 0.5:
                out += f"{ind}@{self._grammar()}\n"
            else:
                out += f"{ind}@{r.choice(pool)}\n"
            self.features.add("decorator")
        return out

    def function(self, ind: str, name: str | None = None, first: str | None = None, extra_decorators: tuple[str, ...] = ()) -> str:
        r = self.rng
        name = name or self.fresh("f")
        pool = ["deco", "deco_args(1, k=2)", "functools.cache", "functools.lru_cache(maxsize=None)", "typing.final", "deco_args()"]
        src = self.decorators(ind, pool) if not extra_decorators or (r.random() < 0.3 and "classmethod" not in extra_decorators) else ""
        for d in extra_decorators:
            src += f"{ind}@{d}\n"
        pre = "async " if r.random() < 0.15 else ""
        ret = f" -> {self.ann()}" if r.random() < 0.6 else ""
        src += f"{ind}{pre}def {name}({self.params(first)}){ret}:\n"
        doc = self.docstring(ind + "    ")
        body = r.choice(["...", "pass", "return None", "x_local = 1\n" + ind + "    return x_local"])
        self.features.add("function")
        return src + doc + f"{ind}    {body}\n"

    def overloads(self, ind: str, first: str | None = None) -> str:
        name = self.fresh("ov")
        fp = f"{first}, " if first else ""
        self.features.add("overload")
        return (f"{ind}@overload\n{ind}def {name}({fp}a: int) -> int: ...\n"
                f"{ind}@typing.overload\n{ind}def {name}({fp}a: str, b: {self.ann()} = ...) -> str: ...\n"
                f"{ind}def {name}({fp}a, b=None):\n{ind}    \"\"\"Implementation of {name}.\"\"\"\n{ind}    return a\n")

    def prop(self, ind: str) -> str:
        r = self.rng
        name = self.fresh("prop")
        deco = r.choice(["property", "property", "functools.cached_property"])
        ret = f" -> {self.ann()}" if r.random() < 0.6 else ""
        src = f"{ind}@{deco}\n{ind}def {name}(self){ret}:\n" + self.docstring(ind + "    ") + f"{ind}    return 1\n"
        self.features.add("property")
        if deco == "property" and r.random() < 0.6:
            src += f"{ind}@{name}.setter\n{ind}def {name}(self, value: {self.ann()}):\n{ind}    pass\n"
            self.features.add("setter")
            if r.random() < 0.5:
                src += f"{ind}@{name}.deleter\n{ind}def {name}(self):\n{ind}    pass\n"
                self.features.add("deleter")
        return src

    def klass(self, ind: str, name: str | None = None, bases: list[str] | None = None, level: int = 0) -> str:
        r = self.rng
        name = name or self.fresh("K")
        body_ind = ind + "    "
        pool = ["deco", "dataclasses.dataclass", "dataclasses.dataclass(frozen=True)", "typing.final", "deco_args(1)"]
        dataclass = False
        src = ""
        for _ in range(r.choice([0, 0, 1, 2])):
            if self.flavour == "static" and r.random() < 0.5:
                src += f"{ind}@{self._grammar()}\n"
            else:
                d = r.choice(pool)
                if "dataclass" in d:
                    if dataclass:
                        continue
                    dataclass = True
                src += f"{ind}@{d}\n"
            self.features.add("decorator")
        bl = list(bases or [])
        if self.flavour == "static":
            for _ in range(r.choice([0, 0, 1, 2])):
                bl.append(self._grammar())
            if r.random() < 0.1:
                bl.append("*" + self._grammar())
            if r.random() < 0.15:
                bl.append("metaclass=" + self._grammar())
        elif r.random() < 0.3 and not dataclass:
            bl.append(r.choice(["abc.ABC", "typing.Generic[TV]", "object"]) if not bl else "typing.Generic[TV]")
        if bl:
            self.features.add("bases")
        src += f"{ind}class {name}" + (f"({', '.join(bl)})" if bl else "") + ":\n"
        body = self.docstring(body_ind)
        if dataclass:
            body += f"{body_ind}field_a: int = 0\n{body_ind}field_b: {self.rng.choice(SAFE_TYPES)} = dataclasses.field(default=None)\n"
        for _ in range(r.randint(0, 4)):
            k = r.random()
            if dataclass and k < 0.4:
                k = 0.5  # plain (un-annotated or annotated-with-default) attributes could break field ordering rules
            if k < 0.3 and not dataclass:
                body += self.attribute(body_ind)
            elif k < 0.55:
                body += self.function(body_ind, first="self")
            elif k < 0.65:
                body += self.function(body_ind, extra_decorators=("staticmethod",))
            elif k < 0.75:
                body += self.function(body_ind, first="cls", extra_decorators=("classmethod",))
            elif k < 0.9:
                body += self.prop(body_ind)
            elif k < 0.95:
                body += self.overloads(body_ind, first="self")
            else:
                body += self.function(body_ind, first="self", extra_decorators=("abc.abstractmethod",))
        if r.random() < 0.4 and not dataclass:
            body += (f"{body_ind}def __init__(self, a: {self.ann()} = None):\n{body_ind}    self.inst_a = a\n"
                     f"{body_ind}    self.inst_b: {self.ann()} = {self.value()}\n{body_ind}    \"\"\"Doc of inst_b.\"\"\"\n")
            if r.random() < 0.02:
                # objects defined in the body of __init__ become members of the *function*
                body += f"{body_ind}    def local_helper(z: {self.ann()} = None): ...\n"
                self.features.add("function-member")
            self.features.add("instance-attribute")
        if r.random() < 0.015:
            # a member map with the key `kind` / `cls` (the decoder dispatches on these keys)
            body += f"{body_ind}{r.choice(['kind', 'cls'])} = 1\n"
            self.features.add("member-named-kind-or-cls")
        if level == 0 and r.random() < 0.4:
            # a nested class named like an expression name: resolution of `T` / `U` now depends on the scope
            body += self.klass(body_ind, r.choice(["T", "U", "Inner"]), level=1)
            self.features.add("nested-class")
        if r.random() < 0.2:
            # (an alias that cannot be resolved inside a class body makes resolve_aliases itself raise: not this property)
            body += f"{body_ind}from {self.class_alias[0]} import {self.class_alias[1]} as class_level_alias\n"
        if not body:
            body = f"{body_ind}pass\n"
        self.features.add("class")
        return src + body

    # -- modules ----------------------------------------------------------------------------------------------------
    def prelude(self) -> str:
        src = ""
        if self.flavour == "importable" or self.rng.random() < 0.5:
            src += "from __future__ import annotations\n"
        src += ("import abc\nimport dataclasses\nimport functools\nimport typing\nimport typing as t\n"
                "from typing import List, Optional, Union, overload, TYPE_CHECKING\n")
        src += "\n\ndef deco(obj):\n    return obj\n\n\ndef deco_args(*args, **kwargs):\n    return deco\n\n\nTV = typing.TypeVar('TV')\n"
        return src

    def body(self, nstmts: tuple[int, int]) -> str:
        r = self.rng
        src = ""
        for _ in range(r.randint(*nstmts)):
            k = r.random()
            if k < 0.35:
                src += self.attribute("")
            elif k < 0.6:
                src += self.function("") + "\n"
            elif k < 0.9:
                src += self.klass("") + "\n"
            else:
                src += self.overloads("") + "\n"
            if r.random() < 0.2:
                src += "\n# a comment\n\n"
        return src

    def package(self) -> dict[str, str]:
        r = self.rng
        nm = self.name
        files: dict[str, str] = {}
        # leaf of the sub-package
        leaf = self.docstring("", 0.5) + self.prelude()
        leaf += "class U:\n    \"\"\"Leaf U.\"\"\"\n    T = int\n\n\nclass b:\n    pass\n\n\nLEAF_VALUE = 1\n"
        leaf += self.body((0, 2))
        leaf += "__all__ = ['U', 'b', 'LEAF_VALUE']\n"
        files[f"{nm}/sub/leaf.py"] = leaf
        sub = self.docstring("", 0.5)
        sub += r.choice(["from .leaf import *\n", f"from {nm}.sub.leaf import U, b\n", "from .leaf import U as U, b as b\n"])
        sub += "from . import leaf\n" if r.random() < 0.5 else ""
        sub += r.choice(["__all__ = ['U', 'b']\n", "__all__ = ('U',)\n", "", ""])
        files[f"{nm}/sub/__init__.py"] = sub
        # core
        core = self.docstring("", 0.7) + self.prelude()
        core += "import os.path\nfrom collections import OrderedDict as OD\n"
        core += "if TYPE_CHECKING:\n    from unknown_pkg_vf.deep import Missing, Other as Renamed\n    import unknown_pkg_vf.sub\n"
        core += "try:\n    from json import dumps\nexcept ImportError:\n    dumps = None\n"
        core += "\n\nclass Base:\n    \"\"\"Base class.\"\"\"\n\n    x = 1\n\n\nclass T(Base):\n    pass\n\n\nm = 3\nn: int = 4\n\"\"\"Doc of n.\"\"\"\n"
        core += self.body((2, 5))
        core += self.klass("", bases=["Base"]) + "\n"
        core += self.klass("", bases=[r.choice(["T", "Base"])]) + "\n"
        files[f"{nm}/core.py"] = core
        # top-level init: names of the expression alphabet become members (classes, values, aliases)
        init = self.docstring("", 0.8) + self.prelude()
        init += f"from {nm}.core import T, Base\n"
        init += r.choice([f"from {nm} import core\n", "from . import core\n", f"import {nm}.core as core\n"])
        init += r.choice(["from .sub import U\n", f"from {nm}.sub.leaf import U\n", "from .sub import *\n"])
        init += "from .core import m as c, n as d\n" if r.random() < 0.6 else "c = 1\nd: int\n"
        init += "import collections.abc\nfrom os import path as ospath, sep\n"
        init += "from typing import *\n" if (self.flavour == "static" and r.random() < 0.3) else ""
        init += "\n\nclass a(Base):\n    \"\"\"Class a.\"\"\"\n\n    class T:\n        \"\"\"Nested T shadows the imported T inside a.\"\"\"\n\n"
        init += f"    attr_t: T = None\n    def meth(self, p: T, q: Optional[List[T]] = None) -> typing.Dict[str, T]: ...\n\n\n"
        init += "x = 1\ny: T\n"
        init += self.body((2, 6))
        init += self.klass("", bases=[r.choice(["core.Base", "T", "a", "Base"])]) + "\n"
        exported = ["T", "a", "x"] + (["core"] if r.random() < 0.5 else [])
        form = r.random()
        if form < 0.4:
            init += f"__all__ = {exported!r}\n"
        elif form < 0.6:
            init += f"__all__ = {tuple(exported)!r}\n"
        elif form < 0.8:
            init += f"__all__ = {exported[:1]!r}\n__all__ += {exported[1:]!r}\n"
        files[f"{nm}/__init__.py"] = init
        if r.random() < 0.3:
            files[f"{nm}/extra.py"] = self.docstring("") + self.prelude() + self.body((1, 4))
        if r.random() < 0.15:
            files[f"{nm}/core.pyi"] = "from typing import Any\nm: int\nclass Base:\n    x: int\n    def only_in_stub(self, a: Any) -> None: ...\n"
            self.features.add("stubs")
        return files


def gen_package(rng: random.Random, name: str, *, flavour: str, depth: int = 2) -> tuple[dict[str, str], list[str]]:
    g = RichGen(rng, name, flavour=flavour, depth=depth)
    files = g.package()
    return files, sorted(g.features)


def gen_namespace(rng: random.Random, name: str, depth: int = 2) -> tuple[list[dict[str, str]], list[str]]:
    """A namespace package ``name`` split over two search paths."""
    g = RichGen(rng, name, flavour="static", depth=depth)
    g.class_alias = (f"{name}.reg1", "thing")
    r0: dict[str, str] = {}
    r1: dict[str, str] = {}
    r0[f"{name}/reg0/__init__.py"] = g.docstring("") + g.prelude() + g.body((1, 3)) + f"from {name}.reg1 import thing\n"
    r0[f"{name}/reg0/inner.py"] = g.prelude() + g.body((1, 2))
    r0[f"{name}/plain0.py"] = g.docstring("") + g.prelude() + g.body((1, 3))
    r1[f"{name}/reg1/__init__.py"] = g.docstring("") + "thing = 1\n\"\"\"Doc of thing.\"\"\"\n" + g.prelude() + g.body((1, 2))
    if rng.random() < 0.6:
        r1[f"{name}/plain1.py"] = g.prelude() + g.body((0, 2))
    if rng.random() < 0.5:
        r1[f"{name}/nested_ns/leaf.py"] = "leaf_value = 1\n" + g.prelude() + g.body((0, 2))
        if rng.random() < 0.5:
            r0[f"{name}/nested_ns/other.py"] = "other_value = 2\n"
    return [r0, r1], sorted(g.features | {"namespace"})


# -- scopes that bind one name several times ----------------------------------------------------------------------------
# A loaded tree remembers more about a scope than its final members (the visitor's record of import statements,
# TYPE_CHECKING guards, the order in which statements re-bound a name); a dump carries only the final members.  The
# packages below make the two disagree: every module binds each of a handful of names by *several* statements of
# different kinds (import / def / class / assignment / annotation / wildcard import), arranged as plain sequences,
# optional-dependency idioms (try-import / except-define, define / try-import-override), conditional re-bindings
# (if/else, TYPE_CHECKING, version tests), at module and at class level, in plain modules, package __init__ modules,
# sub-package modules (two-dot relative imports) and stub/module pairs - and then uses every such name in every
# expression slot (decorator, base, attribute/parameter/return annotation, default, value), in the binding scope and
# in scopes nested below it.
REBIND_WRAPPERS = ("seq", "seq", "seq", "try", "try", "define-try-override", "try-else", "if-else", "if-else", "then-if", "if-then")
REBIND_ORDERS = ("imp-def", "imp-def", "def-imp", "imp-imp", "def-def", "imp-def-imp", "def-imp-def", "imp-wild", "wild-def", "def-wild",
                 "wild-imp", "imp-def-annonly")
REBIND_POSITIONS = ("decorator", "decorator-call", "decorator-keyword", "class-decorator", "base", "base-attribute", "base-subscript",
                    "attribute-annotation", "attribute-value", "attribute-value-nested", "parameter-annotation", "parameter-default",
                    "returns", "string-annotation", "keyword-argument", "lambda-default", "method", "nested-class", "dotted-value")
_FLEX = "    if len(args) == 1 and not kwargs and callable(args[0]):\n        return args[0]\n    return lambda obj: obj\n"


class RebindGen(RichGen):
    """Packages whose scopes bind names several times by different kinds of statements (see the comment above)."""

    def __init__(self, rng: random.Random, name: str, *, flavour: str = "static", depth: int = 2) -> None:
        super().__init__(rng, name, flavour=flavour, depth=depth)
        self.donor_names = {"deco": ["rd_one", "rd_two", "rd_three"], "cls": ["RcOne", "RcTwo", "RcThree"], "val": ["rv_one", "rv_two", "rv_three"]}
        self.originals = {"deco": "orig_deco", "cls": "OrigCls", "val": "orig_val"}

    # -- the donors: two modules defining the same names --------------------------------------------------------------
    def donor(self, tag: str) -> str:
        r = self.rng
        src = f'"""Donor {tag}."""\n'
        if self.flavour == "importable":
            src += "from __future__ import annotations\n"
        names: list[str] = []
        for role, pool in self.donor_names.items():
            for n in [*pool, self.originals[role]]:
                names.append(n)
                if role == "deco":
                    src += f"\n\ndef {n}(*args, **kwargs):\n    \"\"\"Decorator {n} of donor {tag}.\"\"\"\n{_FLEX}"
                elif role == "cls":
                    src += f"\n\nclass {n}:\n    \"\"\"Class {n} of donor {tag}.\"\"\"\n\n    inner = '{tag}'\n\n    class Inner:\n        pass\n"
                else:
                    src += f"\n{n} = 'donor {tag} {n}'\n"
        form = r.random()
        if form < 0.5:
            src += f"\n__all__ = {names!r}\n"
        elif form < 0.7:
            src += f"\n__all__ = {tuple(names)!r}\n"
        return src

    # -- one binding statement -------------------------------------------------------------------------------------------
    def binder(self, kind: str, n: str, role: str, ind: str, rel: str) -> str:  # noqa: PLR0911, PLR0912
        r = self.rng
        pkg = self.name
        donor = r.choice(["donor_a", "donor_b"])
        if kind == "from-abs":
            return f"{ind}from {pkg}.{donor} import {n}\n"
        if kind == "from-rel":
            return f"{ind}from {rel}{donor} import {n}\n"
        if kind == "from-as":
            other = r.choice([self.originals[role], *self.donor_names[role]]) if role in self.originals else "orig_val"
            return f"{ind}from {rel}{donor} import {other} as {n}\n"
        if kind == "from-multi":
            other = self.originals.get(role, "orig_val")
            return f"{ind}from {rel}{donor} import (\n{ind}    {other} as unused_{n},\n{ind}    {n},\n{ind})\n"
        if kind == "import-as":
            return r.choice([f"{ind}import {pkg}.{donor} as {n}\n", f"{ind}from {rel} import {donor} as {n}\n"])
        if kind == "missing":
            return r.choice([f"{ind}from vf_missing_dep.fast import {n}\n", f"{ind}from vf_missing_dep import speedups as {n}\n",
                             f"{ind}import vf_missing_dep.fast as {n}\n"])
        if kind == "stdlib":
            table = {"deco": ["from functools import cache as {n}", "from functools import wraps as {n}", "from typing import final as {n}"],
                     "cls": ["from typing import Protocol as {n}", "from collections import OrderedDict as {n}", "from abc import ABC as {n}"],
                     "val": ["from os import sep as {n}", "from sys import maxsize as {n}", "import json as {n}"]}
            return ind + r.choice(table.get(role, table["val"])).format(n=n) + "\n"
        if kind == "wildcard":
            return f"{ind}from {rel}{donor} import *\n"
        if kind == "def":
            pre = "async " if self.flavour == "static" and r.random() < 0.1 else ""
            return f"{ind}{pre}def {n}(*args, **kwargs):\n{ind}    \"\"\"Local fallback {n}.\"\"\"\n" + "".join(ind + ln + "\n" for ln in _FLEX.splitlines())
        if kind == "class":
            base = f"({self.originals['cls']})" if r.random() < 0.3 else ""
            return f"{ind}class {n}{base}:\n{ind}    \"\"\"Local class {n}.\"\"\"\n\n{ind}    inner = 'local'\n\n{ind}    class Inner:\n{ind}        pass\n"
        if kind == "assign":
            value = self.originals[role] if role in self.originals and role != "val" else r.choice(["'local value'", self.originals["val"], "None"])
            if self.flavour == "static" and r.random() < 0.3:
                value = self.value()
            return f"{ind}{n} = {value}\n" + self.docstring(ind, 0.3)
        if kind == "annassign":
            value = self.originals[role] if role in self.originals and role != "val" else "'annotated local value'"
            return f"{ind}{n}: {self.ann()} = {value}\n"
        if kind == "annonly":
            return f"{ind}{n}: {self.ann()}\n"
        if kind == "pass":
            return f"{ind}pass\n"
        raise ValueError(kind)

    def _imp_kind(self, role: str, *, runs: object, scope: str) -> str:
        """An import statement kind; ``runs`` = True (executed on import), False (never executed), 'try' (inside a try body)."""
        r = self.rng
        kinds = ["from-abs", "from-rel", "from-rel", "from-as", "from-multi"]
        if self.flavour == "static":
            kinds += ["stdlib", "stdlib", "missing", "import-as"]
        elif runs is not True:
            kinds += ["missing", "missing", "missing"]
        return r.choice(kinds)

    def _def_kind(self, role: str) -> str:
        r = self.rng
        by_role = {"deco": ["def", "def", "assign"], "cls": ["class", "class", "assign"], "val": ["assign", "annassign"]}
        if self.flavour == "static" and r.random() < 0.25:
            return r.choice(["def", "class", "assign", "annassign"])
        return r.choice(by_role[role])

    # -- one plan: several binders of one name, wrapped ----------------------------------------------------------------------
    def plan(self, n: str, role: str, ind: str, rel: str, scope: str, between: str = "") -> str:  # noqa: C901, PLR0912
        r = self.rng
        wrapper = r.choice(REBIND_WRAPPERS)
        b = lambda kind, i=ind: self.binder(kind, n, role, i, rel)  # noqa: E731
        inner = ind + "    "
        imp = lambda runs: self._imp_kind(role, runs=runs, scope=scope)  # noqa: E731
        true_c = r.choice(["sys.version_info >= (3, 8)", "not TYPE_CHECKING", "True", "sys.version_info[0] == 3"])
        false_c = r.choice(["TYPE_CHECKING", "typing.TYPE_CHECKING", "sys.version_info < (3,)", "False"])
        if wrapper == "seq":
            order = r.choice([o for o in REBIND_ORDERS if scope == "module" or "wild" not in o])
            self.features.add(f"rebind:seq:{order}")
            out = []
            for part in order.split("-"):
                kind = {"imp": imp(True), "def": self._def_kind(role), "wild": "wildcard", "annonly": "annonly"}[part]
                out.append(b(kind))
            return out[0] + between + "".join(out[1:])
        if wrapper == "try":
            first = imp("try")
            second = r.choice([self._def_kind(role), self._def_kind(role), imp(True)])
            self.features.add("rebind:try-import-except-define")
            exc = r.choice(["ImportError", "ImportError", "(ImportError, AttributeError)", "ModuleNotFoundError", "Exception"])
            return f"{ind}try:\n{b(first, inner)}{ind}except {exc}:\n{b(second, inner)}"
        if wrapper == "define-try-override":
            self.features.add("rebind:define-try-import-override")
            return (b(self._def_kind(role)) + between + f"{ind}try:\n{b(imp('try'), inner)}{ind}except ImportError:\n{inner}pass\n")
        if wrapper == "try-else":
            self.features.add("rebind:try-else")
            probe = r.choice([f"{inner}import {self.name}.donor_a\n", f"{inner}import vf_missing_dep\n"])
            return (f"{ind}try:\n{probe}{ind}except ImportError:\n{b(self._def_kind(role), inner)}{ind}else:\n{b(imp(True), inner)}"
                    if "missing" not in probe else
                    f"{ind}try:\n{probe}{ind}except ImportError:\n{b(self._def_kind(role), inner)}{ind}else:\n{b(imp(False), inner)}")
        if wrapper == "if-else":
            self.features.add("rebind:if-else")
            if r.random() < 0.5:  # the condition holds at run time: the first branch runs
                first, second = r.choice([(imp(True), self._def_kind(role)), (self._def_kind(role), imp(False))])
                return f"{ind}if {true_c}:\n{b(first, inner)}{ind}else:\n{b(second, inner)}"
            first, second = r.choice([(imp(False), self._def_kind(role)), (self._def_kind(role), imp(True)), (imp(False), imp(True))])
            return f"{ind}if {false_c}:\n{b(first, inner)}{ind}else:\n{b(second, inner)}"
        if wrapper == "then-if":
            self.features.add("rebind:conditional-rebinding")
            holds = r.random() < 0.5
            first, second = r.choice([(imp(True), self._def_kind(role)), (self._def_kind(role), imp(holds))])
            return b(first) + between + f"{ind}if {true_c if holds else false_c}:\n{b(second, inner)}"
        # if-then: a guarded first binding, unconditionally re-bound below
        self.features.add("rebind:guarded-then-rebound")
        holds = r.random() < 0.5
        return f"{ind}if {true_c if holds else false_c}:\n{b(imp(holds), inner)}" + between + b(self._def_kind(role))

    # -- uses of a name in one expression slot ---------------------------------------------------------------------------------
    def use(self, position: str, n: str, role: str, ind: str, scope: str, others: dict[str, list[str]]) -> str:  # noqa: C901, PLR0911, PLR0912
        """A statement using ``n`` in ``position``; in the importable flavour only where the role of ``n`` makes it executable."""
        r = self.rng
        static = self.flavour == "static"
        k = self.fresh("u")
        self_p = "self, " if scope == "class" else ""
        body = f"{ind}    return None\n"
        ann_forms = [n, f"Optional[{n}]", f"List[{n}]", f"typing.Dict[str, {n}]", f"'{n}'", f"Union[{n}, None]", f"t.Callable[[{n}], {n}]",
                     f"tuple[{n}, ...]", f"{n} | None"]
        if static:
            ann_forms += [f"{n}.Inner", f"List[{n}.Inner]", f"{n}[int]"]
        ann = r.choice(ann_forms)
        val_name = (others.get("val") or [n])[0] if not static else r.choice(sum(others.values(), []) or [n])
        if position in ("decorator", "decorator-call", "decorator-keyword", "class-decorator"):
            if not static and role != "deco":
                return ""
            deco = {"decorator": n, "decorator-call": f"{n}()", "decorator-keyword": f"{n}(key={val_name}, other=1)", "class-decorator": n}[position]
            if static and r.random() < 0.2:
                deco = f"{n}.inner" if position == "decorator" else deco
            if position == "class-decorator":
                return f"{ind}@{deco}\n{ind}class K{k}:\n{ind}    \"\"\"Decorated by {n}.\"\"\"\n"
            return f"{ind}@{deco}\n{ind}def f{k}({self_p}p: {self.ann()} = None):\n{body}"
        if position in ("base", "base-attribute", "base-subscript"):
            if not static and role != "cls":
                return ""
            base = {"base": n, "base-attribute": f"{n}.Inner", "base-subscript": f"List[{n}]"}[position]
            extra = ", metaclass=abc.ABCMeta" if r.random() < 0.15 and position == "base-attribute" else ""
            return f"{ind}class K{k}({base}{extra}):\n{ind}    \"\"\"Derives from {n}.\"\"\"\n"
        if position == "attribute-annotation":
            return f"{ind}v{k}: {ann}\n" if r.random() < 0.5 else f"{ind}v{k}: {ann} = None\n"
        if position == "attribute-value":
            if static or role == "cls":
                return f"{ind}v{k} = {r.choice([n, n + '()', n + '.inner', n + '.Inner'])}\n"
            return f"{ind}v{k} = {n}\n"
        if position == "attribute-value-nested":
            forms = [f"[{n}, {n}]", f"{{'k': {n}}}", f"({n},)", f"{n} if {n} else None", f"[{n}][0]", f"{n} is not None", f"f'{{{n}}}'",
                     f"dict(k={n})", f"not {n}", f"{n} or None"]
            if scope == "module" or static:
                forms += [f"[{n} for _ in range(2)]", f"{{i: {n} for i in range(2)}}"]
            return f"{ind}v{k} = {r.choice(forms)}\n"
        if position == "parameter-annotation":
            return f"{ind}def f{k}({self_p}p: {ann}, *args: {n}, key: {ann} = None, **kwargs: {n}):\n{body}"
        if position == "parameter-default":
            return f"{ind}def f{k}({self_p}p={n}, /, q: {self.ann()} = {n}, *, key={n}):\n{body}"
        if position == "returns":
            return f"{ind}def f{k}({self_p.rstrip(', ')}) -> {ann}:\n{body}"
        if position == "string-annotation":
            return f"{ind}v{k}: 'List[{n}]' = None\n{ind}def f{k}({self_p}p: '{n}') -> 'Optional[{n}]':\n{body}"
        if position == "keyword-argument":
            deco = (others.get("deco") or ["deco_args"])[0] if not static else r.choice((others.get("deco") or []) + ["deco_args"])
            return f"{ind}v{k} = dict(key={n})\n{ind}@{deco}(key={n})\n{ind}def f{k}({self_p.rstrip(', ')}):\n{body}"
        if position == "lambda-default":
            return f"{ind}v{k} = lambda p={n}, *a, k={n}: p\n"
        if position == "dotted-value":
            if static:
                return f"{ind}v{k} = {n}.inner.real\n{ind}w{k}: {n}.Inner = {n}.Inner()\n"
            if role == "cls":
                return f"{ind}v{k} = {n}.inner\n{ind}w{k}: {n}.Inner = {n}.Inner()\n"
            return f"{ind}v{k} = {n}\n"
        if position == "method":
            if scope == "class":
                return f"{ind}def m{k}(self, p: {ann} = {n}) -> {ann}:\n{ind}    \"\"\"Method using {n}.\"\"\"\n{body}"
            deco = f"    @{n}\n" if static or role == "deco" else ""
            return (f"{ind}class K{k}:\n{ind}    \"\"\"Uses {n} one scope below its bindings.\"\"\"\n\n{ind}    a{k}: {ann} = {n}\n\n"
                    f"{ind}{deco}{ind}    def m{k}(self, p: {ann} = {n}) -> {ann}:\n{ind}        return None\n")
        if position == "nested-class":
            # (at run time a class body nested in a class body does not see the names of the outer class body)
            visible = static or scope == "module"
            base = f"({n})" if static or (role == "cls" and visible) else ""
            value = n if visible else "None"
            return (f"{ind}class K{k}:\n{ind}    class Nested{k}{base}:\n{ind}        n{k}: {ann} = {value}\n\n"
                    f"{ind}        def deep{k}(self, p: {ann} = {value}) -> {ann}:\n{ind}            return None\n")
        raise ValueError(position)

    # -- a scope: plans for several names, then uses -----------------------------------------------------------------------------
    def scope_body(self, ind: str, rel: str, scope: str, tag: str) -> str:
        r = self.rng
        chosen: list[tuple[str, str]] = []
        for role, pool in self.donor_names.items():
            for n in r.sample(pool, r.randint(1, len(pool)) if scope == "module" else r.randint(0, 2)):
                chosen.append((n, role))
        if not chosen:
            chosen.append((self.donor_names["cls"][0], "cls"))
        r.shuffle(chosen)
        if scope == "module":
            self.module_names = [n for n, _ in chosen]
        by_role: dict[str, list[str]] = {}
        for n, role in chosen:
            by_role.setdefault(role, []).append(n)
        src = ""
        positions = list(REBIND_POSITIONS)
        r.shuffle(positions)
        done: list[tuple[str, str]] = []
        for n, role in chosen:
            between = ""
            if r.random() < 0.25:
                # a use between two bindings of the same name
                # (annotations only where the module is really imported: the name may still be unbound at this point)
                slots = ["attribute-annotation", "parameter-annotation", "returns"] + (["attribute-value", "parameter-default"] if self.flavour == "static" else [])
                between = self.use(r.choice(slots), n, role, ind, scope,
                                   {ro: [x for x in xs if (x, ro) in done] for ro, xs in by_role.items()})
            src += self.plan(n, role, ind, rel, scope, between) + "\n"
            done.append((n, role))
        i = 0
        for n, role in chosen:
            for _ in range(r.randint(3, 6) if scope == "module" else r.randint(2, 4)):
                src += self.use(positions[i % len(positions)], n, role, ind, scope, by_role)
                i += 1
            src += "\n"
        # the remaining slots, each with some name it can hold
        while i < len(positions) and r.random() < 0.8:
            n, role = r.choice(chosen)
            src += self.use(positions[i], n, role, ind, scope, by_role)
            i += 1
        if scope == "module" and r.random() < 0.7:
            # a class that re-binds names at class level
            cname = self.fresh("Scope")
            src += f"\n\nclass {cname}:\n    \"\"\"Class-level bindings ({tag}).\"\"\"\n\n" + self.scope_body(ind + "    ", rel, "class", tag)
        return src

    def rebinding_module(self, rel: str, tag: str) -> str:
        src = self.docstring("", 0.6)
        if self.flavour == "importable" or self.rng.random() < 0.5:
            src += "from __future__ import annotations\n"
        src += ("import abc\nimport sys\nimport typing\nimport typing as t\nfrom typing import List, Optional, Union, TYPE_CHECKING\n"
                f"from {rel}donor_a import orig_deco, OrigCls, orig_val\n"
                "\n\ndef deco_args(*args, **kwargs):\n    return lambda obj: obj\n\n\n")
        src += self.scope_body("", rel, "module", tag)
        if self.rng.random() < 0.4:
            exported = [n for n in self.module_names if self.rng.random() < 0.6]
            src += f"\n__all__ = {exported!r}\n"
        return src

    def package(self) -> dict[str, str]:
        r = self.rng
        nm = self.name
        files = {f"{nm}/donor_a.py": self.donor("a"), f"{nm}/donor_b.py": self.donor("b")}
        files[f"{nm}/scopes.py"] = self.rebinding_module(".", "plain module")
        if r.random() < 0.5:
            files[f"{nm}/__init__.py"] = self.rebinding_module(".", "package init")
        else:
            files[f"{nm}/__init__.py"] = self.docstring("", 0.7) + r.choice(["", "from .scopes import *\n", f"from {nm} import scopes\n", "from . import scopes as sc\n"])
        if r.random() < 0.5:
            files[f"{nm}/sub/__init__.py"] = self.rebinding_module("..", "sub-package init") if r.random() < 0.4 else self.docstring("", 0.4)
            files[f"{nm}/sub/inner.py"] = self.rebinding_module("..", "sub-package module")
        if self.flavour == "static" and r.random() < 0.25:
            # a stub next to the module: names imported in one of them and defined in the other
            stub = "from typing import Any\n"
            for role, pool in self.donor_names.items():
                n = r.choice(pool)
                stub += r.choice([f"from .donor_b import {n}\n", f"from {nm}.donor_a import {self.originals[role]} as {n}\n",
                                  f"def {n}(*args: Any, **kwargs: Any) -> Any: ...\n" if role == "deco" else
                                  f"class {n}:\n    inner: str\n" if role == "cls" else f"{n}: str\n"])
            stub += f"def stub_user(p: {r.choice(self.donor_names['cls'])} = ...) -> {r.choice(self.donor_names['cls'])}: ...\n"
            files[f"{nm}/scopes.pyi"] = stub
            self.features.add("rebind:stub-and-module")
        return files


def gen_rebinding_package(rng: random.Random, name: str, *, flavour: str = "static", depth: int = 2) -> tuple[dict[str, str], list[str]]:
    """A package whose scopes bind names several times by different kinds of statements and use them in every expression slot."""
    g = RebindGen(rng, name, flavour=flavour, depth=depth)
    files = g.package()
    return files, sorted(g.features)


# -- packages with stubs: next to the sources, as a `<name>-stubs` package (same or other search path), stubs only ------------
STUB_LAYOUTS = ("inline", "inline", "stubs-package", "stubs-package", "stubs-package-other-path", "stubs-package-other-path",
                "stubs-only", "module-and-stub", "inline+stubs-package")


class StubGen(RichGen):
    """Derives `.pyi` files from generated modules the way a stub generator would (same names, bodies elided, defaults `...`,
    annotations rewritten, overloads added, a few names only the stub declares) and lays sources and stubs out on disk."""

    def _stub_function(self, node: ast.AST, ind: str) -> str:
        r = self.rng
        args = node.args  # type: ignore[attr-defined]
        for a in [*args.posonlyargs, *args.args, *args.kwonlyargs, args.vararg, args.kwarg]:
            if a is not None and a.arg not in ("self", "cls"):
                if r.random() < 0.6:
                    a.annotation = ast.parse(self.ann(), mode="eval").body
                elif r.random() < 0.3:
                    a.annotation = None
        args.defaults = [ast.Constant(...) for _ in args.defaults]
        args.kw_defaults = [None if d is None else ast.Constant(...) for d in args.kw_defaults]
        keep = [d for d in node.decorator_list if ast.unparse(d).split(".")[-1].split("(")[0] in  # type: ignore[attr-defined]
                ("staticmethod", "classmethod", "property", "setter", "deleter", "overload", "abstractmethod", "cached_property", "final")]
        src = "".join(f"{ind}@{ast.unparse(d)}\n" for d in keep)
        pre = "async " if isinstance(node, ast.AsyncFunctionDef) else ""
        ret = f" -> {self.ann()}" if r.random() < 0.7 else ""
        head = f"{ind}{pre}def {node.name}({ast.unparse(args)}){ret}:"  # type: ignore[attr-defined]
        if not keep and r.random() < 0.15:
            # an overloaded signature in the stub for a plain function of the module
            return (f"{ind}@overload\n{ind}def {node.name}(a: int) -> int: ...\n{ind}@overload\n"  # type: ignore[attr-defined]
                    f"{ind}def {node.name}(a: str, b: {self.ann()} = ...) -> str: ...\n")
        if r.random() < 0.2:
            return f"{src}{head}\n{ind}    \"\"\"Docstring written in the stub.\"\"\"\n"
        return f"{src}{head} ...\n"

    def _stub_body(self, body: list, ind: str, level: int = 0) -> str:  # noqa: C901
        r = self.rng
        src = ""
        for node in body:
            if r.random() < 0.25:
                continue  # the stub does not know this member
            if isinstance(node, (ast.FunctionDef, ast.AsyncFunctionDef)):
                src += self._stub_function(node, ind)
            elif isinstance(node, ast.ClassDef):
                bases = ", ".join(ast.unparse(b) for b in node.bases) if r.random() < 0.7 else ""
                inner = self._stub_body(node.body, ind + "    ", level + 1) if level < 2 else ""
                if r.random() < 0.3:
                    inner += f"{ind}    only_in_stub_{node.name}: {self.ann()}\n"
                src += f"{ind}class {node.name}" + (f"({bases})" if bases else "") + ":" + (f"\n{inner}" if inner else " ...\n")
            elif isinstance(node, (ast.Assign, ast.AnnAssign)):
                targets = node.targets if isinstance(node, ast.Assign) else [node.target]
                for t in targets:
                    if isinstance(t, ast.Name) and not t.id.startswith("__"):
                        src += f"{ind}{t.id}: {self.ann()}\n" if r.random() < 0.8 else f"{ind}{t.id}: {self.ann()} = ...\n"
            elif isinstance(node, (ast.Import, ast.ImportFrom)) and r.random() < 0.6 and level == 0:
                if not (isinstance(node, ast.ImportFrom) and node.module == "__future__"):
                    src += f"{ind}{ast.unparse(node)}\n"
        return src

    def stub_of(self, source: str) -> str:
        r = self.rng
        try:
            tree = ast.parse(source)
        except (SyntaxError, ValueError):
            tree = ast.parse("")
        src = r.choice(["from typing import Any, overload\n", "import typing\nfrom typing import overload\n", "from typing import *\n"])
        if r.random() < 0.3:
            src = '"""Docstring of the stub."""\n' + src
        src += self._stub_body(tree.body, "")
        if r.random() < 0.6:
            src += f"def only_in_stub(a: {self.ann()} = ...) -> None: ...\nSTUB_ONLY: {self.ann()}\n"
        if r.random() < 0.3:
            src += f"class StubOnly:\n    attr: {self.ann()}\n    def method(self, a: int = ...) -> {self.ann()}: ...\n"
        return src

    def layout(self) -> tuple[list[dict[str, str]], dict]:
        r = self.rng
        nm = self.name
        kind = r.choice(STUB_LAYOUTS)
        self.features.add(f"stubs:{kind}")
        if kind == "module-and-stub":
            src = self.docstring("", 0.6) + self.prelude() + "LEAF_VALUE = 1\n" + self.body((2, 5))
            self.class_alias = (nm, "LEAF_VALUE")
            return [{f"{nm}.py": src, f"{nm}.pyi": self.stub_of(src)}], {"layout": kind, "find_stubs": r.random() < 0.5}
        concrete = {
            f"{nm}/__init__.py": self.docstring("", 0.7) + self.prelude() + r.choice(["from .core import *\n", f"from {nm}.core import Base\n", ""])
            + self.body((1, 3)),
            f"{nm}/core.py": self.docstring("", 0.5) + self.prelude() + "\n\nclass Base:\n    \"\"\"Base class.\"\"\"\n\n    x = 1\n\n\nm = 3\n"
            + self.body((1, 3)) + self.klass("", bases=["Base"]),
            f"{nm}/sub/__init__.py": r.choice(["from .leaf import *\n", f"from {nm}.sub.leaf import LEAF_VALUE\n", ""]),
            f"{nm}/sub/leaf.py": self.prelude() + "LEAF_VALUE = 1\n" + self.body((0, 2)),
        }
        only = {"only.pyi": self.stub_of(self.prelude() + self.body((1, 2)))}
        if r.random() < 0.5:
            only["subonly/__init__.pyi"] = "from .deep import *\n" if r.random() < 0.5 else f"SUB_ONLY: {self.ann()}\n"
            only["subonly/deep.pyi"] = self.stub_of(self.body((1, 2)))
        if r.random() < 0.3:
            only["sub/only_leaf.pyi"] = f"LEAF_ONLY: {self.ann()}\n"

        def mirror(prefix: str, *, with_only: bool) -> dict[str, str]:
            out = {}
            for rel, src in concrete.items():
                if r.random() < 0.75 or rel.endswith(f"{nm}/__init__.py"):
                    out[prefix + rel[len(nm):].rsplit(".", 1)[0] + ".pyi"] = self.stub_of(src)
            if with_only:
                for rel, src in only.items():
                    out[f"{prefix}/{rel}"] = src
            return out

        with_only = r.random() < 0.8
        find = r.random() < 0.7
        if kind == "inline":
            return [{**concrete, **mirror(nm, with_only=with_only)}], {"layout": kind, "find_stubs": find}
        if kind == "stubs-package":
            return [{**concrete, **mirror(nm + "-stubs", with_only=with_only)}], {"layout": kind, "find_stubs": find}
        if kind == "stubs-package-other-path":
            roots = [concrete, mirror(nm + "-stubs", with_only=with_only)]
            if r.random() < 0.4:
                roots.reverse()
            return roots, {"layout": kind, "find_stubs": find}
        if kind == "stubs-only":
            return [mirror(nm + "-stubs", with_only=with_only)], {"layout": kind, "find_stubs": True}
        # inline stubs *and* a stubs package (in the same or another search path)
        inline = {**concrete, **mirror(nm, with_only=False)}
        stubs = mirror(nm + "-stubs", with_only=with_only)
        if r.random() < 0.5:
            return [{**inline, **stubs}], {"layout": kind, "find_stubs": find}
        return [inline, stubs], {"layout": kind, "find_stubs": find}


def gen_stubs_layout(rng: random.Random, name: str, depth: int = 2) -> tuple[list[dict[str, str]], dict, list[str]]:
    """Search paths (list of file maps), load options ({'layout', 'find_stubs'}) and features of a package that comes with stubs."""
    g = StubGen(rng, name, flavour="static", depth=depth)
    roots, options = g.layout()
    return roots, options, sorted(g.features)
