"""Generator of *rich* packages for the serialisation properties (C08, C09).

Every model field and every expression class must occur in the trees that are serialised:

* flavour ``static``      — source that only has to *parse*: every expression slot (attribute value/annotation, parameter
  annotation/default, return annotation, decorator, base class) is filled from the full expression grammar of
  ``vf.gen.exprs.ExprGen(clean=False)`` (every node class of ``_node_map``).  Loaded by the visitor only.
* flavour ``importable``  — source CPython really imports (needed for ``force_inspection=True``): evaluated slots come from
  a pool of side-effect-free evaluable expressions (still one per expression class), annotations are arbitrary grammar
  expressions kept unevaluated by ``from __future__ import annotations``.  Loaded by both agents.
* namespace layouts        — a package without ``__init__`` split over two search paths, with regular sub-packages,
  plain modules and a nested namespace portion.

The package layout always contains: a top ``__init__`` (docstring, ``__all__``, re-exports = aliases that resolve inside the
package, imports of stdlib / unknown names = aliases that stay unresolved, a wildcard import), a ``core`` module, a
sub-package with a leaf module.  Names of ``exprs.NAMES`` are bound (as classes, values, aliases, nested classes) so that
names inside expressions resolve to something else than themselves and scope matters.
"""
from __future__ import annotations

import ast
import random

from vf.gen.exprs import ExprGen

# evaluable, side-effect free, one (or more) per expression class
SAFE_VALUES = [
    "1", "'s'", "None", "(1, 2)", "[1, 2]", "{'k': 1}", "{1, 2}", "1 + 2", "-1", "not True", "1 if True else 2",
    "lambda p, /, q=1, *r, k, **w: p", "lambda: 0", "lambda *a, k=2: a", "[i for i in range(3)]", "{i: i for i in range(2)}",
    "{i for i in range(2) if i}", "f'{1}a{2!r:>4}'", "1 < 2 <= 3", "True and False", "len('ab')", "dict(a=1, **{})",
    "max(*[1, 2])", "'x'.join(['a'])", "(1).real", "[1, 2][0]", "[1, 2, 3][::2]", "[1, 2, 3][0:2]", "b'x'", "...", "1.5", "2j",
    "list(i for i in range(2))", "[*range(2)]", "{**{}}", "{'a': 1, **{}}", "(1,)", "()", "int", "str.upper", "[[1, 2], [3]][0][1:]",
    "'%s' % 1", "2 ** 8", "~1", "1 if 0 else (2 if 1 else 3)", "(lambda: (yield))", "[j for i in [[1]] for j in i]",
    "{(1, 2): [3]}", "'a' 'b'", "-(1 + 2)", "1 is not None", "1 in (1, 2)", "dict(a=[i for i in range(2)])",
]
SAFE_TYPES = ["int", "str", "float", "bytes", "bool", "object", "list", "dict", "tuple"]
DOCSTRINGS = [
    "Summary line.",
    "Summary.\n\nLonger description\nover two lines.",
    "Multi.\n\n    indented block\n\nend",
    "Unicode \u00e9t\u00e9 \u2603 and escapes \\\\n.",
    "Summary.\n\nParameters:\n    a: First.\n    b (int): Second.\n\nReturns:\n    Something.\n",
    "Summary.\n\nArgs:\n    x: The x.\n\nKeyword Args:\n    k: The k.\n\nRaises:\n    ValueError: When bad.\n\nWarns:\n    UserWarning: Hm.\n\n"
    "Yields:\n    int: Items.\n\nReceives:\n    str: Sent.\n\nExamples:\n    >>> 1 + 1\n    2\n",
    "Summary.\n\nAttributes:\n    attr: An attribute.\n\nFunctions:\n    f: A function.\n\nClasses:\n    C: A class.\n\nModules:\n    m: A module.\n",
    "Summary.\n\nNote:\n    An admonition.\n\nDeprecated:\n    1.2: Do not use.\n\nOther Parameters:\n    z: Zed.\n",
    "Summary.\n\nParameters\n----------\na : int\n    First.\n\nReturns\n-------\nint\n    Value.\n\nSee Also\n--------\nother : thing\n",
    "Summary.\n\n:param a: First.\n:type a: int\n:returns: Value.\n:rtype: int\n:raises ValueError: Bad.\n",
    "Summary.\n\nDeprecated\n----------\n1.2\n    Do not use.\n\nMethods\n-------\nf()\n    A method.\n\nAttributes\n----------\nx : int\n    Attr.\n\n"
    "Warns\n-----\nUserWarning\n    Hm.\n\nExamples\n--------\n>>> 1\n1\n",
    "x",
    "Trailing spaces   \n\n  and odd indent\n",
]


def _q(doc: str, ind: str) -> str:
    """A docstring statement (triple-quoted when needed) at indentation ``ind``."""
    if "\n" in doc:
        body = doc.replace("\\", "\\\\").replace('"""', '\\"\\"\\"')
        lines = body.split("\n")
        text = lines[0] + "".join("\n" + (ind + ln if ln else "") for ln in lines[1:])
        return f'{ind}"""{text}\n{ind}"""\n'
    return f"{ind}{doc!r}\n" if '"' in doc or "\\" in doc else f'{ind}"""{doc}"""\n'


class RichGen:
    def __init__(self, rng: random.Random, name: str, *, flavour: str = "static", depth: int = 2) -> None:
        self.rng = rng
        self.name = name
        self.flavour = flavour
        self.depth = depth
        self.eg = ExprGen(rng, clean=False)
        self.uid = 0
        self.features: set[str] = set()
        self.class_alias = (f"{name}.sub.leaf", "LEAF_VALUE")

    # -- expressions ------------------------------------------------------------------------------------------------
    def _grammar(self, *, annotation: bool = False) -> str:
        for _ in range(30):
            tree = self.eg.expr(self.rng.randint(1, self.depth))
            if any(isinstance(n, ast.Await) for n in ast.walk(tree)):
                continue  # not in _node_map: the visitor stores None for the whole slot (C03's business, and it breaks loading)
            if annotation and self.flavour == "importable" and any(
                    isinstance(n, (ast.Yield, ast.YieldFrom, ast.Await, ast.NamedExpr)) for n in ast.walk(tree)):
                continue  # CPython refuses these inside (postponed) annotations
            try:
                text = ast.unparse(tree)
                ast.parse("(" + text + ")", mode="eval")
            except Exception:  # noqa: BLE001, S112
                continue
            return "(" + text + ")"
        return "int"

    def ann(self) -> str:
        r = self.rng.random()
        if r < 0.25:
            return self.rng.choice(SAFE_TYPES + ["T", "U", "a", "core.Base", "Optional[List[T]]", "List[List[U]]", "typing.Dict[str, a]",
                                                 "'T'", "Union[T, None]", "t.Callable[[T, int], U]", "Optional[core.Base]", "tuple[T, ...]"])
        return self._grammar(annotation=True)

    def value(self) -> str:
        if self.flavour == "importable":
            return self.rng.choice(SAFE_VALUES)
        r = self.rng.random()
        if r < 0.15:
            return self.rng.choice(SAFE_VALUES)
        return self._grammar()

    def fresh(self, prefix: str) -> str:
        self.uid += 1
        return f"{prefix}{self.uid}"

    # -- statements -------------------------------------------------------------------------------------------------
    def docstring(self, ind: str, p: float = 0.6) -> str:
        if self.rng.random() < p:
            self.features.add("docstring")
            return _q(self.rng.choice(DOCSTRINGS), ind)
        return ""

    def attribute(self, ind: str, name: str | None = None) -> str:
        r = self.rng
        name = name or self.fresh("v")
        k = r.random()
        if k < 0.35:
            src = f"{ind}{name} = {self.value()}\n"
        elif k < 0.6:
            src = f"{ind}{name}: {self.ann()} = {self.value()}\n"
        elif k < 0.72:
            src = f"{ind}{name}: {self.ann()}\n"
        elif k < 0.8:
            src = f"{ind}{name} = (\n{ind}    {self.value()}\n{ind})\n"
        elif k < 0.88:
            other = self.fresh("v")
            src = f"{ind}{name} = {other} = {self.value()}\n"
        elif k < 0.94 and self.flavour == "static":
            other = self.fresh("v")
            src = f"{ind}{name}, {other} = {self.value()}\n"
        else:
            src = f"{ind}{name}: {self.ann()} = {self.value()}  # comment\n{ind}{name} += 1\n" if self.flavour == "static" else \
                f"{ind}{name} = 1\n{ind}{name} += 1\n"
        self.features.add("attribute")
        return src + self.docstring(ind, 0.4)

    def params(self, first: str | None = None) -> str:
        r = self.rng
        n = r.randint(0, 5)
        names = [self.fresh("p") for _ in range(n)]
        cuts = sorted(r.randint(0, n) for _ in range(4))
        po, pk = names[: cuts[0]], names[cuts[0]: cuts[1]]
        vp = names[cuts[1]: cuts[2]][:1]
        ko = names[cuts[1]: cuts[2]][1:] + names[cuts[2]: cuts[3]]
        vk = names[cuts[3]:][:1]
        if first:
            (po if po else pk).insert(0, first)

        def one(nm: str, default: bool, stars: str = "") -> str:
            txt = stars + nm
            annotated = r.random() < 0.6 and nm != first
            if annotated:
                txt += ": " + self.ann()
            if default:
                txt += (" = " if annotated else "=") + self.value()
            return txt

        parts = []
        seen_default = False
        for nm in po + pk:
            d = nm != first and (seen_default or r.random() < 0.4)
            seen_default = seen_default or d
            parts.append(one(nm, d))
            if po and nm == po[-1]:
                parts.append("/")
        if vp:
            parts.append(one(vp[0], False, "*"))
        elif ko:
            parts.append("*")
        for nm in ko:
            parts.append(one(nm, r.random() < 0.5))
        if vk:
            parts.append(one(vk[0], False, "**"))
        if len(parts) >= 3 and r.random() < 0.3:
            return "\n        " + ",\n        ".join(parts) + ",\n    "
        return ", ".join(parts)

    def decorators(self, ind: str, pool: list[str], maxn: int = 2) -> str:
        r = self.rng
        out = ""
        for _ in range(r.choice([0, 0, 1, 1, maxn])):
            if self.flavour == "static" and r.random() < 0.5:
                out += f"{ind}@{self._grammar()}\n"
            else:
                out += f"{ind}@{r.choice(pool)}\n"
            self.features.add("decorator")
        return out

    def function(self, ind: str, name: str | None = None, first: str | None = None, extra_decorators: tuple[str, ...] = ()) -> str:
        r = self.rng
        name = name or self.fresh("f")
        pool = ["deco", "deco_args(1, k=2)", "functools.cache", "functools.lru_cache(maxsize=None)", "typing.final", "deco_args()"]
        src = self.decorators(ind, pool) if not extra_decorators or (r.random() < 0.3 and "classmethod" not in extra_decorators) else ""
        for d in extra_decorators:
            src += f"{ind}@{d}\n"
        pre = "async " if r.random() < 0.15 else ""
        ret = f" -> {self.ann()}" if r.random() < 0.6 else ""
        src += f"{ind}{pre}def {name}({self.params(first)}){ret}:\n"
        doc = self.docstring(ind + "    ")
        body = r.choice(["...", "pass", "return None", "x_local = 1\n" + ind + "    return x_local"])
        self.features.add("function")
        return src + doc + f"{ind}    {body}\n"

    def overloads(self, ind: str, first: str | None = None) -> str:
        name = self.fresh("ov")
        fp = f"{first}, " if first else ""
        self.features.add("overload")
        return (f"{ind}@overload\n{ind}def {name}({fp}a: int) -> int: ...\n"
                f"{ind}@typing.overload\n{ind}def {name}({fp}a: str, b: {self.ann()} = ...) -> str: ...\n"
                f"{ind}def {name}({fp}a, b=None):\n{ind}    \"\"\"Implementation of {name}.\"\"\"\n{ind}    return a\n")

    def prop(self, ind: str) -> str:
        r = self.rng
        name = self.fresh("prop")
        deco = r.choice(["property", "property", "functools.cached_property"])
        ret = f" -> {self.ann()}" if r.random() < 0.6 else ""
        src = f"{ind}@{deco}\n{ind}def {name}(self){ret}:\n" + self.docstring(ind + "    ") + f"{ind}    return 1\n"
        self.features.add("property")
        if deco == "property" and r.random() < 0.6:
            src += f"{ind}@{name}.setter\n{ind}def {name}(self, value: {self.ann()}):\n{ind}    pass\n"
            self.features.add("setter")
            if r.random() < 0.5:
                src += f"{ind}@{name}.deleter\n{ind}def {name}(self):\n{ind}    pass\n"
                self.features.add("deleter")
        return src

    def klass(self, ind: str, name: str | None = None, bases: list[str] | None = None, level: int = 0) -> str:
        r = self.rng
        name = name or self.fresh("K")
        body_ind = ind + "    "
        pool = ["deco", "dataclasses.dataclass", "dataclasses.dataclass(frozen=True)", "typing.final", "deco_args(1)"]
        dataclass = False
        src = ""
        for _ in range(r.choice([0, 0, 1, 2])):
            if self.flavour == "static" and r.random() < 0.5:
                src += f"{ind}@{self._grammar()}\n"
            else:
                d = r.choice(pool)
                if "dataclass" in d:
                    if dataclass:
                        continue
                    dataclass = True
                src += f"{ind}@{d}\n"
            self.features.add("decorator")
        bl = list(bases or [])
        if self.flavour == "static":
            for _ in range(r.choice([0, 0, 1, 2])):
                bl.append(self._grammar())
            if r.random() < 0.1:
                bl.append("*" + self._grammar())
            if r.random() < 0.15:
                bl.append("metaclass=" + self._grammar())
        elif r.random() < 0.3 and not dataclass:
            bl.append(r.choice(["abc.ABC", "typing.Generic[TV]", "object"]) if not bl else "typing.Generic[TV]")
        if bl:
            self.features.add("bases")
        src += f"{ind}class {name}" + (f"({', '.join(bl)})" if bl else "") + ":\n"
        body = self.docstring(body_ind)
        if dataclass:
            body += f"{body_ind}field_a: int = 0\n{body_ind}field_b: {self.rng.choice(SAFE_TYPES)} = dataclasses.field(default=None)\n"
        for _ in range(r.randint(0, 4)):
            k = r.random()
            if dataclass and k < 0.4:
                k = 0.5  # plain (un-annotated or annotated-with-default) attributes could break field ordering rules
            if k < 0.3 and not dataclass:
                body += self.attribute(body_ind)
            elif k < 0.55:
                body += self.function(body_ind, first="self")
            elif k < 0.65:
                body += self.function(body_ind, extra_decorators=("staticmethod",))
            elif k < 0.75:
                body += self.function(body_ind, first="cls", extra_decorators=("classmethod",))
            elif k < 0.9:
                body += self.prop(body_ind)
            elif k < 0.95:
                body += self.overloads(body_ind, first="self")
            else:
                body += self.function(body_ind, first="self", extra_decorators=("abc.abstractmethod",))
        if r.random() < 0.4 and not dataclass:
            body += (f"{body_ind}def __init__(self, a: {self.ann()} = None):\n{body_ind}    self.inst_a = a\n"
                     f"{body_ind}    self.inst_b: {self.ann()} = {self.value()}\n{body_ind}    \"\"\"Doc of inst_b.\"\"\"\n")
            if r.random() < 0.02:
                # objects defined in the body of __init__ become members of the *function*
                body += f"{body_ind}    def local_helper(z: {self.ann()} = None): ...\n"
                self.features.add("function-member")
            self.features.add("instance-attribute")
        if r.random() < 0.015:
            # a member map with the key `kind` / `cls` (the decoder dispatches on these keys)
            body += f"{body_ind}{r.choice(['kind', 'cls'])} = 1\n"
            self.features.add("member-named-kind-or-cls")
        if level == 0 and r.random() < 0.4:
            # a nested class named like an expression name: resolution of `T` / `U` now depends on the scope
            body += self.klass(body_ind, r.choice(["T", "U", "Inner"]), level=1)
            self.features.add("nested-class")
        if r.random() < 0.2:
            # (an alias that cannot be resolved inside a class body makes resolve_aliases itself raise: not this property)
            body += f"{body_ind}from {self.class_alias[0]} import {self.class_alias[1]} as class_level_alias\n"
        if not body:
            body = f"{body_ind}pass\n"
        self.features.add("class")
        return src + body

    # -- modules ----------------------------------------------------------------------------------------------------
    def prelude(self) -> str:
        src = ""
        if self.flavour == "importable" or self.rng.random() < 0.5:
            src += "from __future__ import annotations\n"
        src += ("import abc\nimport dataclasses\nimport functools\nimport typing\nimport typing as t\n"
                "from typing import List, Optional, Union, overload, TYPE_CHECKING\n")
        src += "\n\ndef deco(obj):\n    return obj\n\n\ndef deco_args(*args, **kwargs):\n    return deco\n\n\nTV = typing.TypeVar('TV')\n"
        return src

    def body(self, nstmts: tuple[int, int]) -> str:
        r = self.rng
        src = ""
        for _ in range(r.randint(*nstmts)):
            k = r.random()
            if k < 0.35:
                src += self.attribute("")
            elif k < 0.6:
                src += self.function("") + "\n"
            elif k < 0.9:
                src += self.klass("") + "\n"
            else:
                src += self.overloads("") + "\n"
            if r.random() < 0.2:
                src += "\n# a comment\n\n"
        return src

    def package(self) -> dict[str, str]:
        r = self.rng
        nm = self.name
        files: dict[str, str] = {}
        # leaf of the sub-package
        leaf = self.docstring("", 0.5) + self.prelude()
        leaf += "class U:\n    \"\"\"Leaf U.\"\"\"\n    T = int\n\n\nclass b:\n    pass\n\n\nLEAF_VALUE = 1\n"
        leaf += self.body((0, 2))
        leaf += "__all__ = ['U', 'b', 'LEAF_VALUE']\n"
        files[f"{nm}/sub/leaf.py"] = leaf
        sub = self.docstring("", 0.5)
        sub += r.choice(["from .leaf import *\n", f"from {nm}.sub.leaf import U, b\n", "from .leaf import U as U, b as b\n"])
        sub += "from . import leaf\n" if r.random() < 0.5 else ""
        sub += r.choice(["__all__ = ['U', 'b']\n", "__all__ = ('U',)\n", "", ""])
        files[f"{nm}/sub/__init__.py"] = sub
        # core
        core = self.docstring("", 0.7) + self.prelude()
        core += "import os.path\nfrom collections import OrderedDict as OD\n"
        core += "if TYPE_CHECKING:\n    from unknown_pkg_vf.deep import Missing, Other as Renamed\n    import unknown_pkg_vf.sub\n"
        core += "try:\n    from json import dumps\nexcept ImportError:\n    dumps = None\n"
        core += "\n\nclass Base:\n    \"\"\"Base class.\"\"\"\n\n    x = 1\n\n\nclass T(Base):\n    pass\n\n\nm = 3\nn: int = 4\n\"\"\"Doc of n.\"\"\"\n"
        core += self.body((2, 5))
        core += self.klass("", bases=["Base"]) + "\n"
        core += self.klass("", bases=[r.choice(["T", "Base"])]) + "\n"
        files[f"{nm}/core.py"] = core
        # top-level init: names of the expression alphabet become members (classes, values, aliases)
        init = self.docstring("", 0.8) + self.prelude()
        init += f"from {nm}.core import T, Base\n"
        init += r.choice([f"from {nm} import core\n", "from . import core\n", f"import {nm}.core as core\n"])
        init += r.choice(["from .sub import U\n", f"from {nm}.sub.leaf import U\n", "from .sub import *\n"])
        init += "from .core import m as c, n as d\n" if r.random() < 0.6 else "c = 1\nd: int\n"
        init += "import collections.abc\nfrom os import path as ospath, sep\n"
        init += "from typing import *\n" if (self.flavour == "static" and r.random() < 0.3) else ""
        init += "\n\nclass a(Base):\n    \"\"\"Class a.\"\"\"\n\n    class T:\n        \"\"\"Nested T shadows the imported T inside a.\"\"\"\n\n"
        init += f"    attr_t: T = None\n    def meth(self, p: T, q: Optional[List[T]] = None) -> typing.Dict[str, T]: ...\n\n\n"
        init += "x = 1\ny: T\n"
        init += self.body((2, 6))
        init += self.klass("", bases=[r.choice(["core.Base", "T", "a", "Base"])]) + "\n"
        exported = ["T", "a", "x"] + (["core"] if r.random() < 0.5 else [])
        form = r.random()
        if form < 0.4:
            init += f"__all__ = {exported!r}\n"
        elif form < 0.6:
            init += f"__all__ = {tuple(exported)!r}\n"
        elif form < 0.8:
            init += f"__all__ = {exported[:1]!r}\n__all__ += {exported[1:]!r}\n"
        files[f"{nm}/__init__.py"] = init
        if r.random() < 0.3:
            files[f"{nm}/extra.py"] = self.docstring("") + self.prelude() + self.body((1, 4))
        if r.random() < 0.15:
            files[f"{nm}/core.pyi"] = "from typing import Any\nm: int\nclass Base:\n    x: int\n    def only_in_stub(self, a: Any) -> None: ...\n"
            self.features.add("stubs")
        return files


def gen_package(rng: random.Random, name: str, *, flavour: str, depth: int = 2) -> tuple[dict[str, str], list[str]]:
    g = RichGen(rng, name, flavour=flavour, depth=depth)
    files = g.package()
    return files, sorted(g.features)


def gen_namespace(rng: random.Random, name: str, depth: int = 2) -> tuple[list[dict[str, str]], list[str]]:
    """A namespace package ``name`` split over two search paths."""
    g = RichGen(rng, name, flavour="static", depth=depth)
    g.class_alias = (f"{name}.reg1", "thing")
    r0: dict[str, str] = {}
    r1: dict[str, str] = {}
    r0[f"{name}/reg0/__init__.py"] = g.docstring("") + g.prelude() + g.body((1, 3)) + f"from {name}.reg1 import thing\n"
    r0[f"{name}/reg0/inner.py"] = g.prelude() + g.body((1, 2))
    r0[f"{name}/plain0.py"] = g.docstring("") + g.prelude() + g.body((1, 3))
    r1[f"{name}/reg1/__init__.py"] = g.docstring("") + "thing = 1\n\"\"\"Doc of thing.\"\"\"\n" + g.prelude() + g.body((1, 2))
    if rng.random() < 0.6:
        r1[f"{name}/plain1.py"] = g.prelude() + g.body((0, 2))
    if rng.random() < 0.5:
        r1[f"{name}/nested_ns/leaf.py"] = "leaf_value = 1\n" + g.prelude() + g.body((0, 2))
        if rng.random() < 0.5:
            r0[f"{name}/nested_ns/other.py"] = "other_value = 2\n"
    return [r0, r1], sorted(g.features | {"namespace"})
