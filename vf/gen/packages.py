"""Generator of multi-module packages with *acyclic* import graphs (C05, C04, C11, C08/C09).

Layering keeps CPython happy: plain modules of sub-packages < sub-package inits < plain modules
of the top package < top-level init.  A module only imports from modules strictly earlier in
that order, so importing the package really works (cases CPython rejects are skipped by the
checks).  Every plain value is a unique string literal naming its defining path, so a runtime
value identifies its definition.
"""
from __future__ import annotations

import ast
import random

FUNC, CLASS, VALUE = "func", "class", "value"

# Underscore *shapes* of identifiers (wildcard exposure and privacy rules look at the spelling only): dunder names that
# the interpreter does not set itself, class-private style, sunder, lone underscore, trailing underscore.
SHAPED = ["__version__", "__author__", "__marker__", "__priv", "__priv2_", "_sunder_", "_", "trail_", "__getattr__", "__dir__"]
# Module-level hooks: they must stay *neutral* (a module `__getattr__` that answers changes what CPython itself does for
# `from m import *`, `hasattr(m, "__all__")`, sub-module imports), so they get a fixed neutral body and are always functions.
HOOKS = {"__getattr__": "def __getattr__(name):\n    raise AttributeError(name)",
         "__dir__": "def __dir__():\n    return sorted(globals())"}

def is_dunder(name: str) -> bool:
    return len(name) > 4 and name.startswith("__") and name.endswith("__")


def namespace_names(pkg: "Pkg", mod: str) -> list[str]:
    """Identifiers spelled like the *structural* names around ``mod``: its own last component (weighted), its ancestor
    packages, and the last components of every other module of the package (siblings, cousins, same-named modules of
    other sub-packages).  Names of direct children are left out: a member shadowing a sub-module of its own package is
    the documented Griffe limitation both checks exclude from their domain."""
    own = mod.rsplit(".", 1)[-1]
    anc = mod.split(".")[:-1]
    children = {m.rsplit(".", 1)[1] for m in pkg.order if "." in m and m.rsplit(".", 1)[0] == mod}
    others = sorted({m.rsplit(".", 1)[-1] for m in pkg.order} - {own} - set(anc))
    return [n for n in [own, own, own, *anc, *others] if n not in children]


class Pkg:
    def __init__(self, name: str) -> None:
        self.name = name
        self.order: list[str] = []          # dotted module paths, dependency order (earlier = importable)
        self.packages: set[str] = set()     # dotted paths that are packages (have __init__)
        self.lines: dict[str, list[str]] = {}
        self.defs: dict[str, dict[str, str]] = {}     # module -> name -> kind (names *bound* there, incl. imported)
        self.all: dict[str, list[str] | None] = {}
        self.all_tuple: set[str] = set()    # modules whose __all__ is a tuple at runtime (cannot be `+`-ed to a list)
        self.composed: set[str] = set()     # modules whose __all__ is built from other modules' __all__

    def file_of(self, mod: str) -> str:
        return mod.replace(".", "/") + ("/__init__.py" if mod in self.packages else ".py")

    def files(self) -> dict[str, str]:
        return {self.file_of(m): "\n".join(self.lines[m]) + "\n" for m in self.order}


def layout(rng: random.Random, name: str = "pk", nmods: tuple[int, int] = (3, 8), late: float = 0.0) -> Pkg:
    pkg = Pkg(name)
    total = rng.randint(*nmods)
    nsub = rng.choice([0, 1, 1, 2]) if total >= 4 else 0
    subs = [f"{name}.s{i}" for i in range(nsub)]
    order: list[str] = []
    budget = total - 1 - nsub
    for s in subs:
        k = rng.randint(1, max(1, min(2, budget)))
        budget -= k
        for j in range(k):
            order.append(f"{s}.n{j}")
        if rng.random() < 0.25 and budget > 0:   # a nested sub-sub-package
            budget -= 1
            deep = f"{s}.deep"
            order.append(f"{deep}.z")
            order.append(deep)
            pkg.packages.add(deep)
        order.append(s)
        pkg.packages.add(s)
    for j in range(max(budget, 1)):
        order.append(f"{name}.m{j}")
    order.append(name)
    pkg.packages.add(name)
    if late and rng.random() < late:
        # "late" modules: nothing in the package imports them, so they may import from *everything* above - in particular
        # from the __init__ of their own ancestors (a child reading its parent / grandparent), which the bottom-up layers
        # above can never do.  Plain modules at any depth, or a sub-package whose child comes after its __init__.
        spots = [name, *subs, *sorted(p for p in pkg.packages if p.endswith(".deep"))]
        for j in range(rng.choice([1, 1, 2])):
            if rng.random() < 0.25 and f"{name}.lp" not in pkg.packages:
                order += [f"{name}.lp", f"{name}.lp.w"]
                pkg.packages.add(f"{name}.lp")
            else:
                order.append(f"{rng.choice(spots)}.l{j}")
    pkg.order = order
    return pkg


def relative(pkg: Pkg, frm: str, target: str) -> str | None:
    """Relative spelling (dots + rest) of ``target`` as seen from module ``frm``, if expressible."""
    base = frm.split(".") if frm in pkg.packages else frm.split(".")[:-1]
    tparts = target.split(".")
    for up in range(len(base) + 1):
        anchor = base[: len(base) - up]
        if tparts[: len(anchor)] == anchor and anchor:
            rest = tparts[len(anchor):]
            return "." * (up + 1) + ".".join(rest)
    return None


def gen_package(rng: random.Random, name: str = "pk", *, hostile: bool = False, with_docs: bool = False,
                dup_prob: float = 0.25, ns_prob: float = 0.10, shape_prob: float = 0.10,
                nmods: tuple[int, int] = (3, 8), foreign: list[Pkg] | tuple = (), foreign_prob: float = 0.35,
                late: float = 0.0, compose_prob: float = 0.25, multi_prob: float = 0.45) -> Pkg:  # noqa: C901, PLR0912, PLR0915
    """``ns_prob``: share of freshly bound names (definitions, import aliases) spelled like a structural name of the package
    (own module, ancestors, other modules); ``shape_prob``: share drawn from the underscore shapes (dunder, class-private
    style, sunder, ...); ``foreign``: already generated *other* top-level packages whose modules this one may import
    from (absolute spellings only; ``foreign_prob`` = share of import statements reaching over there), which keeps the
    import graph acyclic across packages as well; ``late`` (opt-in, C05 uses 0.5): probability of 1-2 "late" modules (see layout) that read
    their ancestors; ``compose_prob``: share of first `__all__` statements built from other modules' `__all__` (any
    direction of the tree that is importable at that point, several sources, chains, `+` / `+=` / star-unpacking, through
    `import m [as n]` + `n.__all__` or `from m import __all__ as n`); ``multi_prob``: share of from-import statements that
    carry several names, plain and renamed ones mixed (`from m import a, b as c, d`), in every from-import form (members
    of a module, sub-modules of a package by `from . import` / `from .. import` / `from a.b import`, sub-modules and
    members of the package in one statement), written on one line, parenthesised, one name per line, or split into one
    statement per name."""
    pkg = layout(rng, name, nmods, late)
    foreign_mods: list[str] = []
    for other in foreign:
        foreign_mods += other.order
        pkg.defs.update(other.defs)
        pkg.all.update(other.all)
        pkg.all_tuple |= other.all_tuple
        pkg.composed |= other.composed
    pool = ["alpha", "beta", "gamma", "delta", "omega", "_hidden", "_p2", "Kls", "Other", "fn", "helper"]
    for idx, mod in enumerate(pkg.order):
        earlier = foreign_mods + pkg.order[:idx]
        # children of this package may always be imported by its init; other earlier modules too
        lines: list[str] = []
        bound: dict[str, str] = {}
        explicit_all: list[str] | None = None
        all_started = False
        own_tuple = False
        reserved: set[str] = set()   # names an `__all__` expression reads: never re-bound later (Griffe resolves them statically)
        children = {m.rsplit(".", 1)[1] for m in pkg.order if "." in m and m.rsplit(".", 1)[0] == mod}
        nstmts = rng.randint(2, 7)
        if with_docs and rng.random() < 0.5:
            lines.append(f'"""Module {mod}."""')
        nsp = namespace_names(pkg, mod)

        def special_name(*, alias: bool = False) -> str | None:
            """A name from the namespace-spelled or underscore-shaped classes (None: the caller's ordinary choice)."""
            q = rng.random()
            if q < ns_prob and nsp:
                return rng.choice(nsp)
            if q < ns_prob + shape_prob:
                if rng.random() < 0.3:
                    return f"__{rng.choice(['a', 'b', 'c'])}{idx}_{len(lines)}__"
                return rng.choice([n for n in SHAPED if not (alias and n in HOOKS)])
            return None

        # one more `__all__` statement at the end, often for late modules (they are the ones that can read an ancestor)
        is_late = idx > pkg.order.index(name)
        extra_all = 1 if rng.random() < (0.7 if is_late else 0.25) else 0
        def emit_from(spelled: str, items: list[tuple[str, str | None, str]]) -> None:
            """One from-import statement (or, for the "split" shape, one per name) binding every (name, asname, kind)."""
            clauses = [f"{n} as {a}" if a else n for n, a, _ in items]
            shape = rng.choice(["line", "line", "paren", "multi", "split"]) if len(items) > 1 else "line"
            if shape == "split":
                lines.extend(f"from {spelled} import {c}" for c in clauses)
            elif shape == "paren":
                lines.append(f"from {spelled} import ({', '.join(clauses)})")
            elif shape == "multi":
                lines.append(f"from {spelled} import (\n" + "".join(f"    {c},\n" for c in clauses) + ")")
            else:
                lines.append(f"from {spelled} import {', '.join(clauses)}")
            for n, a, k in items:
                bound[a or n] = k

        def more_names(items: list[tuple[str, str | None, str]], candidates: list[tuple[str, str]], own_children_plain: bool) -> None:
            """Extend a from-import with further (name, kind) candidates of the same source, plain or renamed."""
            if rng.random() >= multi_prob:
                return
            rng.shuffle(candidates)
            for n, k in candidates[: rng.choice([1, 1, 2, 3])]:
                a = rng.choice([None, None, n + ("_m" if k == "module" else "_x"), special_name(alias=True)])
                if n in HOOKS and a is None:
                    a = n + "_x"
                b = a or n
                if b in reserved or any(b == (ia or i) for i, ia, _ in items):
                    continue
                if b in children and not (own_children_plain and a is None):
                    continue    # would shadow a sub-module of this package (a plain `from . import child` does not)
                items.append((n, a, k))
            rng.shuffle(items)

        def package_offers(package: str) -> list[tuple[str, str]]:
            """What `from <package> import …` can fetch at this point: its already importable sub-modules, and - when its
            __init__ is complete by now (late modules reading an ancestor) - its members."""
            subs = [(m.rsplit(".", 1)[1], "module") for m in earlier if "." in m and m.rsplit(".", 1)[0] == package]
            names = {n for n, _ in subs}
            if package in earlier:
                subs += [(n, k) for n, k in pkg.defs[package].items() if n != "__all__" and n not in names]
            return subs

        for step in range(nstmts + extra_all):
            r = rng.random()
            if step >= nstmts:
                r = 0.95
            if r < 0.40 or not earlier:
                nm = special_name()
                if nm is None:
                    nm = rng.choice(pool) if rng.random() < dup_prob else f"{rng.choice(['a', 'b', 'c', 'd', 'e'])}{idx}_{len(lines)}"
                kind = rng.choice([FUNC, CLASS, VALUE, VALUE])
                if nm[0].isupper():
                    kind = CLASS
                if nm in reserved:
                    continue
                if nm in HOOKS:
                    lines.append(HOOKS[nm])
                    bound[nm] = FUNC
                    continue
                if kind == FUNC:
                    doc = f'\n    """Doc of {nm} in {mod}."""' if with_docs and rng.random() < 0.5 else ""
                    lines.append(f"def {nm}(x, y=0):{doc}\n    return '{mod}.{nm}'")
                elif kind == CLASS:
                    doc = f'\n    """Class {nm} in {mod}."""' if with_docs and rng.random() < 0.5 else ""
                    lines.append(f"class {nm}:{doc}\n    attr = '{mod}.{nm}.attr'\n    def meth(self): ...")
                else:
                    lines.append(f"{nm} = '{mod}.{nm}'")
                bound[nm] = kind
                continue
            src = rng.choice(earlier)
            if foreign_mods and idx and rng.random() < foreign_prob:
                src = rng.choice(foreign_mods)
            elif foreign_mods and idx:
                src = rng.choice(pkg.order[:idx])
            src_names = [n for n in pkg.defs[src] if n != "__all__"]
            spelled = src
            rel = relative(pkg, mod, src)
            if rel is not None and rng.random() < 0.5:
                spelled = rel
            if r < 0.62 and src_names:
                nm = rng.choice(src_names)
                asname = rng.choice([None, None, nm + "_x", rng.choice(pool)])
                if asname is not None:
                    asname = special_name(alias=True) or asname
                if nm in HOOKS and asname is None and rng.random() < 0.5:
                    asname = nm + "_x"
                if (asname or nm) in children or (asname or nm) in reserved:
                    continue  # would shadow a sub-module of this package (documented Griffe limitation)
                items = [(nm, asname, pkg.defs[src][nm])]
                more_names(items, [(n, pkg.defs[src][n]) for n in src_names if n != nm], own_children_plain=False)
                emit_from(spelled, items)
            elif r < 0.72:
                if spelled.startswith("."):
                    # `from . import sibling` / `from .. import pkgmod` forms
                    dots = spelled[: len(spelled) - len(spelled.lstrip("."))]
                    rest = spelled[len(dots):]
                    if rest and "." not in rest:
                        asname = rng.choice([None, None, rest + "_m"])
                        if asname is not None:
                            asname = special_name(alias=True) or asname
                        if ((asname or rest) in children and asname is not None) or (asname or rest) in reserved:
                            continue
                        items = [(rest, asname, "module")]
                        package = src.rsplit(".", 1)[0]
                        more_names(items, [c for c in package_offers(package) if c[0] != rest], own_children_plain=package == mod)
                        emit_from(dots, items)
                        continue
                if "." in src and src.rsplit(".", 1)[0] != mod and rng.random() < 0.4:
                    # `from a.b import c [as d]`: a sub-module fetched from its package by the absolute spelling (the same
                    # last component may well name the importing module itself, e.g. pk.s1.n0 doing `from pk.s0 import n0`)
                    parent, rest = src.rsplit(".", 1)
                    asname = rng.choice([None, None, special_name(alias=True) or rest + "_m"])
                    if (asname or rest) not in children and (asname or rest) not in reserved:
                        items = [(rest, asname, "module")]
                        more_names(items, [c for c in package_offers(parent) if c[0] != rest], own_children_plain=False)
                        emit_from(parent, items)
                        continue
                asname = rng.choice([None, "mod_" + src.replace(".", "_")])
                if asname is not None:
                    asname = special_name(alias=True) or asname
                    if asname in children:
                        continue
                if (asname or src.split(".")[0]) in reserved:
                    continue
                lines.append(f"import {src}" + (f" as {asname}" if asname else ""))
                bound[asname or src.split(".")[0]] = "module"
            elif r < 0.88:
                exp = pkg.all[src]
                if exp is not None:
                    exposed = [n for n in exp if n in pkg.defs[src]]
                else:
                    exposed = [n for n in pkg.defs[src] if not n.startswith("_")]
                if set(exposed) & children or set(exposed) & reserved:
                    continue  # would shadow a sub-module of this package / re-bind a name an `__all__` expression read
                if exp is None and children & {m.rsplit(".", 1)[1] for m in [*foreign_mods, *pkg.order] if "." in m and m.rsplit(".", 1)[0] == src}:
                    # a package without __all__ also hands over its (implicitly bound) sub-modules: same shadowing
                    continue
                local = [n for n in exposed if n not in HOOKS]
                if local and rng.random() < 0.3:
                    # a local definition right above the wildcard that rebinds its name (the later statement wins)
                    nm = rng.choice(local)
                    if rng.random() < 0.5:
                        lines.append(f"def {nm}(own_param):\n    return '{mod}.{nm}'")
                        bound[nm] = FUNC
                    else:
                        lines.append(f"{nm} = '{mod}.{nm}'")
                        bound[nm] = VALUE
                lines.append(f"from {spelled} import *")
                for n in exposed:
                    bound[n] = pkg.defs[src][n]
            else:
                # __all__ forms
                if not all_started and rng.random() < 0.18:
                    # an explicitly empty __all__: `from m import *` binds nothing although m has public names
                    form = rng.choice(["__all__ = []", "__all__ = ()", "__all__: list[str] = []"])
                    lines.append(form)
                    own_tuple = "()" in form
                    explicit_all = []
                    all_started = True
                    bound["__all__"] = VALUE
                    continue
                cands = [n for n in bound if n != "__all__"]
                if not cands:
                    continue
                pick = rng.sample(cands, rng.randint(1, min(3, len(cands))))
                usable = [m for m in earlier if pkg.all.get(m) is not None and not (set(pkg.all[m]) & (children | reserved))]

                def choose_sources() -> list[str]:
                    ancestors = [m for m in usable if mod.startswith(m + ".")]
                    chained = [m for m in usable if m in pkg.composed]
                    out: list[str] = []
                    for _ in range(rng.choice([1, 1, 1, 2, 2, 3])):
                        q = rng.random()
                        m = rng.choice(ancestors if ancestors and q < 0.5 else chained if chained and q < 0.75 else usable)
                        if m not in out:
                            out.append(m)
                    return out

                def reference(srcm: str) -> str:
                    """Emit the import that makes `srcm.__all__` reachable; return the expression spelling it."""
                    for n in pkg.all[srcm]:
                        # names listed but not bound here would break `import *` in CPython: bind them
                        if n not in bound and n in pkg.defs[srcm]:
                            lines.append(f"from {srcm} import {n}")
                            bound[n] = pkg.defs[srcm][n]
                    style = rng.choice(["import-as", "import-as", "import", "from-all", "from-all"])
                    tag = srcm.replace(".", "_")
                    if style == "import-as":
                        lines.append(f"import {srcm} as src_{tag}")
                        bound[f"src_{tag}"] = "module"
                        reserved.add(f"src_{tag}")
                        return f"src_{tag}.__all__"
                    if style == "import":
                        lines.append(f"import {srcm}")
                        bound[srcm.split(".")[0]] = "module"
                        reserved.add(srcm.split(".")[0])
                        return f"{srcm}.__all__"
                    rel = relative(pkg, mod, srcm)
                    lines.append(f"from {rel if rel is not None and rng.random() < 0.6 else srcm} import __all__ as all_{tag}")
                    bound[f"all_{tag}"] = VALUE
                    reserved.add(f"all_{tag}")
                    return f"all_{tag}"

                if not all_started:
                    if usable and rng.random() < compose_prob:
                        sources = choose_sources()
                        refs = [(reference(m), m) for m in sources]
                        chunks = [pick] if len(pick) < 2 or rng.random() < 0.6 else [pick[:1], pick[1:]]
                        pieces: list[tuple[str, list[str], bool]] = [(r, list(pkg.all[m]), m in pkg.all_tuple) for r, m in refs]
                        pieces += [(repr(c), list(c), False) for c in chunks]
                        rng.shuffle(pieces)
                        style = rng.choice(["plus", "plus", "star", "aug"])
                        if style == "plus" and any(t for _, _, t in pieces):
                            style = "star"      # tuple + list raises at import time
                        unpack = lambda text, names: ", ".join(map(repr, names)) if text.startswith("[") else f"*{text}"  # noqa: E731
                        if style == "plus":
                            lines.append("__all__ = " + " + ".join(text for text, _, _ in pieces))
                        elif style == "star":
                            lines.append("__all__ = [" + ", ".join(unpack(text, names) for text, names, _ in pieces if names or not text.startswith("[")) + "]")
                        else:
                            # a fresh list first (never the source's own list object: `+=` would mutate it), then `+=`
                            text, names, _ = pieces[0]
                            lines.append(f"__all__ = {text if text.startswith('[') else '[*' + text + ']'}")
                            for text, _, _ in pieces[1:]:
                                lines.append(f"__all__ += {text}")
                        explicit_all = [n for _, names, _ in pieces for n in names]
                        pkg.composed.add(mod)
                    else:
                        form = rng.choice(["list", "tuple", "concat"])
                        if form == "tuple":
                            lines.append(f"__all__ = {tuple(pick)!r}")
                            own_tuple = True
                        elif form == "concat" and len(pick) > 1:
                            lines.append(f"__all__ = {pick[:1]!r} + {pick[1:]!r}")
                        else:
                            lines.append(f"__all__ = {pick!r}")
                        explicit_all = list(pick)
                    all_started = True
                    bound["__all__"] = VALUE
                elif explicit_all is not None and not own_tuple:
                    if usable and rng.random() < 0.4:
                        srcm = rng.choice(choose_sources())
                        lines.append(f"__all__ += {reference(srcm)}")
                        explicit_all = explicit_all + list(pkg.all[srcm])
                        pkg.composed.add(mod)
                    else:
                        extra = [n for n in pick if n not in explicit_all]
                        if extra:
                            lines.append(f"__all__ += {extra!r}")
                            explicit_all = explicit_all + extra
        if explicit_all is not None:
            # every listed name must exist at the end (CPython raises AttributeError on `import *` otherwise)
            explicit_all = [n for n in explicit_all if n in bound]
        pkg.lines[mod] = lines
        pkg.defs[mod] = bound
        pkg.all[mod] = explicit_all
        if own_tuple:
            pkg.all_tuple.add(mod)
    return pkg


def statement_bound_names(source: str) -> set[str]:
    """Names bound by import statements at module level (used to tell explicit from implicit sub-module bindings)."""
    out: set[str] = set()
    for node in ast.parse(source).body:
        if isinstance(node, ast.Import):
            for a in node.names:
                out.add(a.asname or a.name.split(".")[0])
        elif isinstance(node, ast.ImportFrom):
            for a in node.names:
                if a.name != "*":
                    out.add(a.asname or a.name)
    return out
