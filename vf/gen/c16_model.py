"""C16 reference model: a dictionary tree + alias map, written independently of Griffe.

The model knows nothing about ``_griffe``: nodes are plain Python objects, containers are plain
dicts, aliases carry a target path and (once resolved) a pointer to the node they designate.
``World`` (in ``vf.checks.c16``) drives the model and the real API side by side.
"""
from __future__ import annotations


class MKeyError(Exception):
    """The model's 'no such member'."""


class MValueError(Exception):
    """The model's 'empty key'."""


class MUnresolvable(Exception):
    """Crossing / resolving an alias whose target path designates nothing."""


class MCyclic(Exception):
    """Alias chain loops back."""


class MOutOfDomain(Exception):
    """The history left the modelled domain (e.g. a string target whose path crosses an alias)."""


class N:
    """A model node."""

    __slots__ = ("kind", "name", "members", "uid", "target_path", "target", "suffix", "up", "stamp", "unreg", "reg_path", "reg_stamp", "displaced", "label")

    def __init__(self, kind: str, name: str, uid: int, target_path: str | None = None, suffix: str = ".py") -> None:
        self.kind = kind            # module / class / function / attribute / alias
        self.name = name
        self.members: dict[str, N] = {}
        self.uid = uid
        self.target_path = target_path   # aliases: the path they were declared with (string targets)
        self.target: N | None = None     # aliases: resolved pointer
        self.suffix = suffix             # modules: .py or .pyi
        self.up: N | None = None         # container node (None: collection level or detached)
        self.stamp = 0                   # aliases: logical time at which the alias was last bound / registered
        self.unreg = False               # aliases: bound while the rest of the chain could not be followed (never registered)
        self.reg_path: str | None = None  # aliases: the path the alias had when it was last bound / registered (None: never, no parent then)
        self.reg_stamp = 0               # aliases: logical time of the last registration (unlike ``stamp``, also advanced when a
                                         # resolution that happened behind the model's back is adopted)
        self.displaced = -1              # aliases: value of reg_stamp when the registration was seen displaced by a stale alias
        self.label: str | None = None    # creation label ("u<k>" universe step, "h<k>" history step, "<label>/<name>" prebuilt member)

    def path(self) -> str:
        parts, n = [], self
        while n is not None:
            parts.append(n.name)
            n = n.up
        return ".".join(reversed(parts))

    def __repr__(self) -> str:
        return f"N({self.kind} {self.path()} #{self.uid})"


def parts_of(key) -> list[str]:  # noqa: ANN001
    """Key normalisation as documented: a name, a dotted path or a sequence of names; empty keys are invalid."""
    if isinstance(key, str):
        if not key:
            raise MValueError("empty string")
        return key.split(".")
    parts = list(key)
    if not parts:
        raise MValueError("empty tuple")
    return parts


class Tree:
    def __init__(self) -> None:
        self.root: dict[str, N] = {}
        self.clock = 0
        self._resolving: list[N] = []

    def bind(self, alias: N, target: N | None) -> None:
        """Point ``alias`` at ``target`` (None: keep the pointer, only refresh the registration time)."""
        if target is not None:
            alias.target = target
        self.clock += 1
        alias.stamp = alias.reg_stamp = self.clock
        # the key of the registration is the path the alias has at this moment (no parent: nothing is registered)
        if alias.target is not None and alias.up is not None:
            alias.reg_path = alias.path()

    def chain_changed_since_bound(self, alias: N) -> bool:
        """Was an alias further down the chain re-bound after ``alias`` was bound / registered?"""
        seen, t = [], alias.target
        while t is not None and t.kind == "alias" and not any(t is s for s in seen):
            if t.stamp > alias.stamp:
                return True
            seen.append(t)
            t = t.target
        return False

    # -- plain navigation (never crosses an alias; used to find receivers and to walk) ----------
    def node_at(self, path: str) -> N | None:
        members, node = self.root, None
        for p in path.split("."):
            if node is not None and node.kind == "alias":
                return None
            node = members.get(p)
            if node is None:
                return None
            members = node.members
        return node

    def in_tree(self, node: N) -> bool:
        top = node
        while top.up is not None:
            if top.up.members.get(top.name) is not top:
                return False
            top = top.up
        return self.root.get(top.name) is top

    def is_detached_root(self, node: N) -> bool:
        """Is ``node`` the root of a subtree that hangs nowhere (never stored, deleted, or replaced in its container)?
        (``up`` mirrors the parent pointer, which deletion / replacement / the alias constructor's ``parent=`` leave in place.)"""
        if node.up is None:
            return self.root.get(node.name) is not node
        return node.up.members.get(node.name) is not node

    @staticmethod
    def inside(node: N | None, root: N) -> bool:
        """Is ``node`` equal to or *stored* below ``root``?"""
        seen = 0
        while node is not None and seen < 64:
            if node is root:
                return True
            if node.up is None or node.up.members.get(node.name) is not node:
                return False
            node, seen = node.up, seen + 1
        return False

    @staticmethod
    def subtree(node: N, parts: tuple = ()):
        """Yield (relative parts, node) for ``node`` and everything stored below it (not through aliases)."""
        todo = [(parts, node)]
        while todo:
            pp, n = todo.pop()
            yield pp, n
            if n.kind != "alias":
                todo.extend(((*pp, name), m) for name, m in n.members.items())

    def walk(self):
        """Yield (parts, node, container_node_or_None) for every node reachable through non-alias containers."""
        todo = [((name,), n, None) for name, n in self.root.items()]
        while todo:
            parts, n, cont = todo.pop()
            yield parts, n, cont
            if n.kind != "alias":
                todo.extend(((*parts, name), m, n) for name, m in n.members.items())

    # -- alias semantics ---------------------------------------------------------------------------
    def resolve(self, alias: N) -> None:
        """Resolve a string-target alias.  All-or-nothing as documented in resolve_target: the link is only recorded when
        the rest of the chain can be followed to a non-alias object; re-entering an alias being resolved is a cycle.
        (An implementation that records the link before it notices the broken chain is tolerated by the caller's
        pointer synchronisation, not modelled here.)"""
        if any(alias is a for a in self._resolving):
            raise MCyclic(alias.path())
        self._resolving.append(alias)
        try:
            try:
                found = self.lookup(self.root, alias.target_path.split("."), resolving=True)
            except MKeyError as exc:
                raise MUnresolvable(alias.target_path) from exc
            if found is alias:
                raise MCyclic(alias.path())
            if found.kind == "alias":
                self.final(found)
            self.bind(alias, found)
        finally:
            self._resolving.pop()

    def final(self, alias: N) -> N:
        # cycles are detected on *paths* (documented in Alias.final_target: "remembering which path we've seen already"),
        # so a chain running through a detached alias that used to live at an already visited path counts as cyclic
        seen = set()
        t = alias
        while t.kind == "alias":
            if t.path() in seen:
                raise MCyclic(alias.path())
            seen.add(t.path())
            if t.target is None:
                self.resolve(t)
            t = t.target
        return t

    def lookup(self, members: dict, parts: list[str], resolving: bool = False):  # noqa: ANN201
        """Member lookup.  Returns a node, or ('wrap', member_node, first_crossed_alias) when the path crosses an alias."""
        crossed = None
        node = None
        for i, p in enumerate(parts):
            if i > 0:
                if node.kind == "alias":
                    if resolving:
                        raise MOutOfDomain("string target path crosses an alias")
                    crossed = crossed or node
                    node = self.final(node)
                members = node.members
            if p not in members:
                raise MKeyError(p)
            node = members[p]
        if crossed is not None:
            return ("wrap", node, crossed)
        return node

    def container(self, start: N | None, members: dict, parts: list[str]):  # noqa: ANN201
        """Locate the dict a mutation addresses: (container_node_or_None, dict, crossed_alias_or_None)."""
        node, crossed = start, None
        for p in parts[:-1]:
            if p not in members:
                raise MKeyError(p)
            node = members[p]
            if node.kind == "alias":
                crossed = crossed or node
                node = self.final(node)
            members = node.members
        return node, members, crossed

    def pointing_at(self, target: N) -> list[N]:
        """All aliases currently in the tree whose resolved pointer is ``target``."""
        return [n for _p, n, _c in self.walk() if n.kind == "alias" and n.target is target]


# -- the implicit stubs merge of set_member (documented: the regular module is what stays in the tree; members only the stubs
#    have are adopted by the regular side; same-named members are "merged", which changes no structure unless both are
#    containers of one kind, where the rule applies again one level down; a stub member that is an alias is ignored) ----------
def shape_of_node(node: N) -> dict:
    """{name: (kind, shape or None)} of what is stored below a model node (aliases are leaves)."""
    return {n: (m.kind, shape_of_node(m) if m.kind in ("class", "module") else None) for n, m in node.members.items()}


def shape_of_spec(members: list) -> dict:
    """The same for the flat member list of a value that is still to be built ([kind, dotted name, opt], storing order)."""
    top: dict = {}
    for kind, dotted, _opt in members:
        *pre, leaf = dotted.split(".")
        level = top
        for p in pre:
            level = level[p][1]
        k = "alias" if kind.startswith("alias") else kind
        level[leaf] = (k, {} if k in ("class", "module") else None)
    return top


def merge_outside_model(conc: dict, stubs: dict, conc_never_attached: bool) -> str | None:
    """Why a merge of these two shapes is outside the modelled domain (None: inside).
    * a regular-side alias under a name the stubs define as a container: the merger then works *through* the alias
      (a known finding of its own: mutations addressed through an alias are dropped);
    * a regular-side alias under a name the stubs define as a non-alias, in a regular module that was never attached: looking
      through the alias needs a modules collection, the merge is abandoned half-way (the merger's business, not this property's)."""
    for name, (skind, sshape) in stubs.items():
        if name not in conc or skind == "alias":
            continue
        ckind, cshape = conc[name]
        if ckind == "alias":
            if skind in ("class", "module"):
                return "the stubs define a container under the name of a regular-side alias"
            if conc_never_attached:
                return "regular-side alias to look through in a module that has no collection yet"
        elif ckind == skind and ckind in ("class", "module"):
            why = merge_outside_model(cshape, sshape, conc_never_attached)
            if why:
                return why
    return None


def merge_stubs_model(obj: N, stubs: N, moved: list) -> None:
    """Mirror of the merge on the model: adopt what only the stubs have, recurse into containers both sides have."""
    for name, sm in list(stubs.members.items()):
        if name in obj.members:
            om = obj.members[name]
            if sm.kind == "alias" or om is sm:
                continue
            if om.kind == sm.kind and om.kind in ("class", "module"):
                merge_stubs_model(om, sm, moved)
        else:
            obj.members[name] = sm
            sm.up = obj
            moved.append(sm)


def adoptable_members(conc: dict, stubs: N):
    """The stubs-side nodes a merge into a regular side of shape ``conc`` would hand over (the stub-only ones, at every level)."""
    for name, sm in stubs.members.items():
        if name not in conc:
            yield sm
        elif sm.kind != "alias" and conc[name][0] == sm.kind and sm.kind in ("class", "module"):
            yield from adoptable_members(conc[name][1], sm)
