"""Grammar-directed random generator of Python expressions (as ``ast`` trees) for C03.

Two domains (DESIGN §4.1, ``### C03``):

* ``clean=True``  — ``D_clean``: every compound operand of an operator / attribute / call / subscript sits in a
  self-delimiting position, so no grouping parentheses are ever required, and none of the known defect triggers of
  the pinned tree is generated (see ``CLEAN_EXCLUDES``).
* ``clean=False`` — ``D_hostile``: the full expression grammar; ``ast.unparse`` inserts whatever parentheses CPython
  needs.

The generator only builds shapes the *parser* accepts (``Starred`` / ``Slice`` only where legal, walrus targets are
names, ...); text always comes from ``ast.unparse`` and is re-parsed by the caller, so the reference tree is CPython's
own reading of the text.
"""
from __future__ import annotations

import ast
import random

BINOPS = [ast.Add, ast.Sub, ast.Mult, ast.MatMult, ast.Div, ast.Mod, ast.Pow, ast.LShift, ast.RShift, ast.BitOr,
          ast.BitXor, ast.BitAnd, ast.FloorDiv]
UNARYOPS = [ast.Invert, ast.Not, ast.UAdd, ast.USub]
BOOLOPS = [ast.And, ast.Or]
CMPOPS = [ast.Eq, ast.NotEq, ast.Lt, ast.LtE, ast.Gt, ast.GtE, ast.Is, ast.IsNot, ast.In, ast.NotIn]

NAMES = ["a", "b", "c", "d", "x", "y", "T", "U", "m", "n", "int", "str"]
ATTRS = ["a", "b", "real", "p", "q", "T"]
PARAMS = ["p", "q", "r", "s", "k", "w", "v", "z"]
KWNAMES = ["key", "sep", "end", "flag"]

CLEAN_EXCLUDES = [
    "operator / attribute / call / subscript operands are atoms (names, constants, calls, subscripts, attribute chains, displays, bracketed comprehensions, walrus)",
    "generator expressions only as the sole argument of a call; yield / yield from only at the top of the stored expression",
    "no ** entries in dict displays, no dict comprehensions",
    "lambda: no *args followed by keyword-only parameters; positional-only parameters only when followed by a regular parameter",
    "no empty tuple as subscript index; no parenthesised tuple below a subscript index other than the index itself",
    "f-strings: plain text without quotes/braces/backslashes, no conversion, no format spec, no nested f-string, value does not start with '{'",
    "no attribute access on an int literal; finite floats only",
    "string constants either do not parse as an expression or parse to a name / dotted name / subscript",
]

# ---------------------------------------------------------------------------------------------------------------
# constants
CLEAN_STRINGS = ["abc", "it's", "T.U", "", "two words", "x[y]", "été", "tab\there", "q\"q", "a-b c", "T"]
HOSTILE_STRINGS = CLEAN_STRINGS + ["both'\"q", "new\nline", "\\back", "\x00", "{brace}", " A", "a or b", "a if b else c", "lambda: 0",
                                   "a, b", "-a", "a + b", "not a", "x for x in y", "*a", "a := 1", "(a)", "1", "...", "None",
                                   "\ud800", "\U0001f600", "a\n", "f'{a}'"]
CLEAN_NUMBERS = [0, 1, 7, 255, 10 ** 30, 1.5, 0.0, 1e-07, 1e300, 2j, 1.5j, 0j]
HOSTILE_NUMBERS = CLEAN_NUMBERS + [float("inf"), complex(0, float("inf")), 2 ** 64, 1e16, 5e-324]
BYTES = [b"xy", b"\xff\x00", b"it's", b"", b"q\"q"]
FTEXT_CLEAN = ["a", "text ", " and ", "x=", "1, 2", "-", "[ok] ", "a.b "]
FTEXT_HOSTILE = FTEXT_CLEAN + ["it's", "q\"q", "{", "}", "{x}", "back\\slash", "new\nline", "tab\t", "é", "'''", "\x00", "\r"]


class ExprGen:
    """Random expression trees.  ``stats`` is updated with what was generated (for evidence)."""

    def __init__(self, rng: random.Random, *, clean: bool, fixed: frozenset = frozenset()) -> None:
        """``fixed``: ids of listed findings whose status is ``fixed``: their triggers re-enter ``D_clean``."""
        self.rng = rng
        self.clean = clean
        self.fixed = fixed

    def excluded(self, finding: str) -> bool:
        """Is the trigger of ``finding`` kept out of the domain being generated?"""
        return self.clean and finding not in self.fixed

    # -- leaves -------------------------------------------------------------------------------------------------
    def name(self) -> ast.Name:
        return ast.Name(self.rng.choice(NAMES), ast.Load())

    def constant(self, *, no_int: bool = False) -> ast.Constant:
        r = self.rng
        k = r.random()
        if k < 0.35:
            pool = CLEAN_NUMBERS if self.clean else HOSTILE_NUMBERS
            v = r.choice(pool)
            if no_int and type(v) is int:
                v = 1.5
            return ast.Constant(v)
        if k < 0.65:
            s = r.choice(CLEAN_STRINGS if self.clean else HOSTILE_STRINGS)
            kind = "u" if (not self.clean and r.random() < 0.1 and "\\" not in s) else None
            return ast.Constant(s, kind=kind)
        if k < 0.75:
            return ast.Constant(r.choice(BYTES))
        return ast.Constant(r.choice([True, False, None, ...]))

    def leaf(self, *, no_int: bool = False) -> ast.expr:
        return self.name() if self.rng.random() < 0.55 else self.constant(no_int=no_int)

    # -- dispatcher ---------------------------------------------------------------------------------------------
    # level: 0 = FREE (any expression), 1 = OPER (or_test-like: atoms and operators over atoms), 2 = ATOM
    def expr(self, d: int, level: int = 0, leak: bool = False, no_int: bool = False) -> ast.expr:
        r = self.rng
        if d <= 0 or r.random() < 0.12:
            return self.leaf(no_int=no_int)
        if not self.clean:
            level = 0
        kinds = ["Attribute", "Call", "Subscript", "List", "Set", "Dict", "ListComp", "SetComp", "NamedExpr", "JoinedStr", "Tuple",
                 "Call", "Subscript", "Attribute"]
        if level <= 1:
            kinds += ["BinOp", "UnaryOp", "BoolOp", "Compare", "BinOp", "Compare"]
        if level == 0:
            kinds += ["IfExp", "Lambda"]
        if not self.excluded("C03-dictcomp-space"):
            kinds += ["DictComp"]
        if not self.clean:
            kinds += ["GeneratorExp", "Yield", "YieldFrom", "IfExp", "Lambda", "BoolOp", "UnaryOp"]
            if r.random() < 0.02:
                kinds = ["Await"]
        kind = r.choice(kinds)
        if kind == "Tuple" and leak and self.excluded("C03-subscript-tuple-leak"):
            kind = "List"
        return getattr(self, "g_" + kind)(d - 1, leak)

    def sub(self, d: int, level: int, leak: bool, **kw) -> ast.expr:  # noqa: ANN003
        """Child in a position that needs ``level`` in the clean domain."""
        return self.expr(d, level, leak, **kw)

    # -- compound nodes -----------------------------------------------------------------------------------------
    def g_Attribute(self, d: int, leak: bool) -> ast.expr:
        value = self.sub(d, 2, leak, no_int=self.clean)
        if self.clean and isinstance(value, ast.Constant) and type(value.value) is int:
            value = self.name()
        return ast.Attribute(value, self.rng.choice(ATTRS), ast.Load())

    def g_BinOp(self, d: int, leak: bool) -> ast.expr:
        return ast.BinOp(self.sub(d, 2, leak), self.rng.choice(BINOPS)(), self.sub(d, 2, leak))

    def g_UnaryOp(self, d: int, leak: bool) -> ast.expr:
        return ast.UnaryOp(self.rng.choice(UNARYOPS)(), self.sub(d, 2, leak))

    def g_BoolOp(self, d: int, leak: bool) -> ast.expr:
        n = self.rng.choice([2, 2, 3])
        return ast.BoolOp(self.rng.choice(BOOLOPS)(), [self.sub(d, 2, leak) for _ in range(n)])

    def g_Compare(self, d: int, leak: bool) -> ast.expr:
        n = self.rng.choice([1, 1, 2, 3])
        return ast.Compare(self.sub(d, 2, leak), [self.rng.choice(CMPOPS)() for _ in range(n)],
                           [self.sub(d, 2, leak) for _ in range(n)])

    def g_IfExp(self, d: int, leak: bool) -> ast.expr:
        return ast.IfExp(self.sub(d, 1, leak), self.sub(d, 1, leak), self.sub(d, 0, leak))

    def g_NamedExpr(self, d: int, leak: bool) -> ast.expr:
        return ast.NamedExpr(ast.Name(self.rng.choice(PARAMS), ast.Store()), self.sub(d, 0, leak))

    def g_Await(self, d: int, leak: bool) -> ast.expr:
        return ast.Await(self.sub(d, 2, leak))

    def g_Yield(self, d: int, leak: bool) -> ast.expr:
        return ast.Yield(None if self.rng.random() < 0.3 else self.sub(d, 0, leak))

    def g_YieldFrom(self, d: int, leak: bool) -> ast.expr:
        return ast.YieldFrom(self.sub(d, 0, leak))

    def starred(self, d: int, leak: bool) -> ast.Starred:
        return ast.Starred(self.sub(d, 2, leak), ast.Load())

    def elements(self, d: int, leak: bool, lo: int = 0, hi: int = 3) -> list[ast.expr]:
        out = []
        for _ in range(self.rng.randint(lo, hi)):
            out.append(self.starred(d, leak) if self.rng.random() < 0.12 else self.sub(d, 0, leak))
        return out

    def g_List(self, d: int, leak: bool) -> ast.expr:
        return ast.List(self.elements(d, leak), ast.Load())

    def g_Tuple(self, d: int, leak: bool) -> ast.expr:
        return ast.Tuple(self.elements(d, False), ast.Load())

    def g_Set(self, d: int, leak: bool) -> ast.expr:
        return ast.Set(self.elements(d, leak, 0 if not self.clean else 1, 3))

    def g_Dict(self, d: int, leak: bool) -> ast.expr:
        keys, values = [], []
        for _ in range(self.rng.randint(0, 3)):
            if not self.excluded("C03-dict-unpack") and self.rng.random() < 0.2:
                keys.append(None)
                values.append(self.sub(d, 2, leak))
            else:
                keys.append(self.sub(d, 0, leak))
                values.append(self.sub(d, 0, leak))
        return ast.Dict(keys, values)

    def g_Call(self, d: int, leak: bool) -> ast.expr:
        r = self.rng
        func = self.sub(d, 2, leak)
        if isinstance(func, ast.Constant) and (self.clean or r.random() < 0.9):
            func = self.name()  # `None(0)` makes Decorator.callable_path / Expr.is_classvar raise inside the visitor
        if r.random() < 0.12:
            return ast.Call(func, [self.genexp(d, leak)], [])
        args = self.elements(d, leak, 0, 2)
        keywords = []
        names = r.sample(KWNAMES, r.randint(0, 2))
        for n in names:
            keywords.append(ast.keyword(n, self.sub(d, 0, leak)))
        if r.random() < 0.15:
            keywords.insert(r.randint(0, len(keywords)), ast.keyword(None, self.sub(d, 2 if self.clean else 0, leak)))
        return ast.Call(func, args, keywords)

    def slice_(self, d: int, leak: bool) -> ast.Slice:
        r = self.rng
        parts = [self.sub(d, 0, leak) if r.random() < 0.5 else None for _ in range(3)]
        return ast.Slice(*parts)

    def g_Subscript(self, d: int, leak: bool) -> ast.expr:
        r = self.rng
        value = self.sub(d, 2, False)
        k = r.random()
        if k < 0.45:
            sl: ast.expr = self.sub(d, 0, True)
            if isinstance(sl, ast.Tuple) and not sl.elts and self.excluded("C03-empty-tuple-index"):
                sl = self.name()
        elif k < 0.65:
            sl = self.slice_(d, True)
        else:
            elts: list[ast.expr] = []
            for _ in range(r.randint(1 if self.excluded("C03-empty-tuple-index") else 0, 3)):
                j = r.random()
                elts.append(self.slice_(d, False) if j < 0.25 else self.starred(d, False) if j < 0.35 else self.sub(d, 0, False))
            sl = ast.Tuple(elts, ast.Load())
        return ast.Subscript(value, sl, ast.Load())

    def target(self) -> ast.expr:
        r = self.rng
        k = r.random()
        if k < 0.6 or self.clean and k < 0.7:
            return ast.Name(r.choice(PARAMS), ast.Store())
        if k < 0.9:
            return ast.Tuple([ast.Name(n, ast.Store()) for n in r.sample(PARAMS, r.randint(1, 3))], ast.Store())
        j = r.random()
        if j < 0.3:
            return ast.Attribute(self.name(), r.choice(ATTRS), ast.Store())
        if j < 0.6:
            return ast.Subscript(self.name(), self.name(), ast.Store())
        if j < 0.8:
            return ast.List([ast.Name(n, ast.Store()) for n in r.sample(PARAMS, 2)], ast.Store())
        a, b = r.sample(PARAMS, 2)
        return ast.Tuple([ast.Starred(ast.Name(a, ast.Store()), ast.Store()), ast.Name(b, ast.Store())], ast.Store())

    def comprehensions(self, d: int, leak: bool) -> list[ast.comprehension]:
        r = self.rng
        out = []
        for _ in range(r.choice([1, 1, 1, 2])):
            ifs = [self.sub(d, 1, leak) for _ in range(r.choice([0, 0, 1, 2]))]
            out.append(ast.comprehension(self.target(), self.sub(d, 1, leak), ifs, int(r.random() < 0.15)))
        return out

    def genexp(self, d: int, leak: bool) -> ast.GeneratorExp:
        return ast.GeneratorExp(self.sub(d, 0, leak), self.comprehensions(d, leak))

    def g_GeneratorExp(self, d: int, leak: bool) -> ast.expr:
        return self.genexp(d, leak)

    def g_ListComp(self, d: int, leak: bool) -> ast.expr:
        return ast.ListComp(self.sub(d, 0, leak), self.comprehensions(d, leak))

    def g_SetComp(self, d: int, leak: bool) -> ast.expr:
        return ast.SetComp(self.sub(d, 0, leak), self.comprehensions(d, leak))

    def g_DictComp(self, d: int, leak: bool) -> ast.expr:
        return ast.DictComp(self.sub(d, 0, leak), self.sub(d, 0, leak), self.comprehensions(d, leak))

    def g_Lambda(self, d: int, leak: bool) -> ast.expr:
        r = self.rng
        names = r.sample(PARAMS, r.randint(0, 5))
        # split names into posonly | args | vararg? | kwonly | kwarg?
        cuts = sorted(r.randint(0, len(names)) for _ in range(4))
        posonly = names[: cuts[0]]
        args = names[cuts[0]: cuts[1]]
        var = names[cuts[1]: cuts[2]][:1]
        rest = names[cuts[1]: cuts[2]][1:]
        kwonly = rest + names[cuts[2]: cuts[3]]
        kwarg = names[cuts[3]:][:1]
        if self.excluded("C03-lambda-markers"):
            if var and kwonly:
                args, kwonly = args + kwonly, []
            if posonly and not args:
                args, posonly = posonly, []
        npos = len(posonly) + len(args)
        ndef = r.randint(0, npos)
        defaults = [self.sub(min(d, 1), 0, leak) for _ in range(ndef)]
        kw_defaults = [self.sub(min(d, 1), 0, leak) if r.random() < 0.5 else None for _ in kwonly]
        arguments = ast.arguments(
            posonlyargs=[ast.arg(n) for n in posonly], args=[ast.arg(n) for n in args],
            vararg=ast.arg(var[0]) if var else None, kwonlyargs=[ast.arg(n) for n in kwonly], kw_defaults=kw_defaults,
            kwarg=ast.arg(kwarg[0]) if kwarg else None, defaults=defaults)
        return ast.Lambda(arguments, self.sub(d, 0, leak))

    def g_JoinedStr(self, d: int, leak: bool) -> ast.expr:
        r = self.rng
        values: list[ast.expr] = []
        last_text = False
        for _ in range(r.randint(0, 4)):
            if r.random() < 0.45 and not last_text:
                values.append(ast.Constant(r.choice(FTEXT_CLEAN if self.clean else FTEXT_HOSTILE)))
                last_text = True
                continue
            last_text = False
            if self.clean:
                for _try in range(20):
                    v = self.sub(min(d, 2), 1, leak)
                    if not _has(v, ast.JoinedStr) and not ast.unparse(v).startswith("{"):
                        break
                else:
                    v = self.name()
                values.append(ast.FormattedValue(v, -1, None))
            else:
                conv = r.choice([-1, -1, -1, 114, 115, 97])
                spec = None
                if r.random() < 0.25:
                    spec_vals: list[ast.expr] = [ast.Constant(r.choice([">10", ".2f", "x", "^"]))]
                    if r.random() < 0.4:
                        spec_vals.append(ast.FormattedValue(self.name(), -1, None))
                    spec = ast.JoinedStr(spec_vals)
                values.append(ast.FormattedValue(self.sub(min(d, 2), 0, leak), conv, spec))
        return ast.JoinedStr(values)

    # -- top level ----------------------------------------------------------------------------------------------
    def top(self, depth: int) -> ast.expr:
        """A whole stored expression.  A few forms are only legal (or only clean) at the top."""
        r = self.rng
        k = r.random()
        if k < 0.03:
            return ast.Starred(self.sub(depth - 1, 2, False), ast.Load())  # only storable as a base class
        if k < 0.06:
            return self.g_Yield(depth - 1, False)
        if k < 0.08:
            return self.g_YieldFrom(depth - 1, False)
        if k < 0.09:
            return self.g_Await(depth - 1, False)
        return self.expr(depth, 0, False)


def _has(node: ast.AST, cls: type) -> bool:
    return any(isinstance(n, cls) for n in ast.walk(node))


# ---------------------------------------------------------------------------------------------------------------
# string-annotation workload: typing-shaped expressions with quoted parts
LITERAL_SPELLINGS = ["Literal", "Lit", "TELit", "typing.Literal", "t.Literal", "typing_extensions.Literal", "te.Literal"]
PRELUDE = ("import typing\nimport typing as t\nimport typing_extensions\nimport typing_extensions as te\n"
           "from typing import Literal\nfrom typing import Literal as Lit\nfrom typing_extensions import Literal as TELit\n")
TYPE_NAMES = ["T", "U", "int", "str", "m.T", "a.b.C", "None"]
CONTAINERS = ["list", "dict", "Optional", "tuple", "typing.Union", "t.Callable", "Annotated", "Mapping"]
LITERAL_VALUES = ["a", "T", "int | None", "list[T]", "two words", "x-y", "", "m.T"]
WEIRD_STRINGS = ["", " T", "T\n", "T  |  U", "(T)", "not valid (", "*Ts", "T,", "a if b else c", "lambda: T", "T or U", "1", "...",
                 "\x00", "T.", "await T", "T := 1", "-T", "x for x in T", "yield", "T[()]", "{**T}"]


def _dotted(path: str) -> ast.expr:
    parts = path.split(".")
    node: ast.expr = ast.Constant(None) if path == "None" else ast.Name(parts[0], ast.Load())
    for p in parts[1:]:
        node = ast.Attribute(node, p, ast.Load())
    return node


class StringAnnGen:
    """Typing-shaped expressions in which sub-expressions are randomly replaced by string constants holding their text."""

    def __init__(self, rng: random.Random, *, clean: bool) -> None:
        self.rng = rng
        self.clean = clean
        self.n_strings = 0
        self.n_literal_strings = 0

    def quote(self, node: ast.expr) -> ast.expr:
        self.n_strings += 1
        return ast.Constant(ast.unparse(node))

    def literal(self, d: int) -> ast.expr:
        r = self.rng
        elts: list[ast.expr] = []
        for _ in range(r.randint(1, 3)):
            k = r.random()
            if k < 0.7:
                elts.append(ast.Constant(r.choice(LITERAL_VALUES)))
                self.n_literal_strings += 1
            elif k < 0.85 or d <= 0:
                elts.append(ast.Constant(r.choice([1, True, None, b"x"])))
            else:
                elts.append(self.literal(d - 1))
        sl = elts[0] if len(elts) == 1 and r.random() < 0.7 else ast.Tuple(elts, ast.Load())
        return ast.Subscript(_dotted(r.choice(LITERAL_SPELLINGS)), sl, ast.Load())

    def typ(self, d: int, *, atom: bool = False, in_string: bool = False) -> ast.expr:
        """``atom``: the clean domain needs something that never needs parentheses as an operand of ``|``."""
        r = self.rng
        k = r.random()
        if d <= 0 or k < 0.2:
            node = _dotted(r.choice(TYPE_NAMES))
        elif k < 0.5:
            cont = r.choice(CONTAINERS)
            n = r.randint(1, 3)
            args: list[ast.expr] = [self.typ(d - 1, in_string=in_string) for _ in range(n)]
            if cont == "t.Callable":
                args = [ast.List(args[:-1], ast.Load()), args[-1]]
            if cont == "tuple" and r.random() < 0.3:
                args.append(ast.Constant(...))
            sl = args[0] if len(args) == 1 else ast.Tuple(args, ast.Load())
            node = ast.Subscript(_dotted(cont), sl, ast.Load())
        elif k < 0.7 and not in_string:
            return self.literal(1)  # never quoted as a whole here; strings inside stay strings
        elif k < 0.72 and not in_string and not self.clean:
            self.n_strings += 1
            return ast.Constant(r.choice(WEIRD_STRINGS))
        else:
            if atom and self.clean:
                node = _dotted(r.choice(TYPE_NAMES))
            else:
                n = r.randint(2, 3)
                parts = [self.typ(d - 1, atom=True, in_string=in_string) for _ in range(n)]
                node = parts[0]
                for p in parts[1:]:
                    node = ast.BinOp(node, ast.BitOr(), p)
        if not in_string and r.random() < 0.3:
            # re-generate the quoted text without nested strings / Literal (one level of quoting only)
            inner = self.typ(min(d, 2), atom=atom, in_string=True)
            return self.quote(inner)
        return node
