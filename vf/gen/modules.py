"""Structural generator of single modules for C01 (and reused by C08/C09): every binding form the
property lists, nested scopes, wrappers, decorators, docstrings, duplicates."""
from __future__ import annotations

import random

PRELUDE = (
    "import abc\nimport functools\nimport dataclasses\nimport typing\n"
    "from typing import overload, TYPE_CHECKING, ClassVar\n"
    "from functools import cached_property, lru_cache\n"
)
DECOS_ANY = ["", "", "", "@functools.cache", "@lru_cache(maxsize=2)", "@functools.lru_cache", "@deco", "@ext.deco(1,\n    2)",
             "@abc.abstractmethod"]
DECOS_CLASS_SCOPE = ["@staticmethod", "@classmethod", "@property", "@cached_property", "@functools.cached_property"]
CLASS_DECOS = ["", "", "@dataclasses.dataclass", "@deco", "@dataclasses.dataclass(frozen=True)"]
VALUES = ["1", "'s'", "[1, 2]", "{'k': 1}", "call(1)", "a.b", "None", "(1,\n    2)", "x if y else z"]
ANNOTS = ["int", "str", "list[int]", "typing.Any", "'Fwd'"]
IMPORTS = ["import os", "import os.path", "import os.path as osp", "from os import path", "from os import path as p2",
           "from collections import abc as cabc, OrderedDict", "from somewhere import *", "from pkg.sub import thing"]
CONDS = ["cond", "sys.version_info >= (3, 9)", "not flag", "a and b"]


class Gen:
    def __init__(self, rng: random.Random, dup_prob: float = 0.3, max_depth: int = 3, hostile: bool = False) -> None:
        self.rng = rng
        self.dup_prob = dup_prob
        self.max_depth = max_depth
        self.hostile = hostile
        self.counter = 0
        # every underscore shape: none, leading one / two, trailing one / two, both sides symmetric and asymmetric, only underscores
        self.pool = ["alpha", "beta", "gamma", "_priv", "__dunder__", "Kls", "_Hidden", "_x__", "__y", "z__", "w_", "_v_", "__u_",
                     "_", "__", "___", "\u00e9t\u00e9", "_\u00e9__"]
        self.modname = "m"

    def name(self, prefix: str = "n") -> str:
        if self.rng.random() < self.dup_prob:
            return self.rng.choice(self.pool)
        self.counter += 1
        nm = f"{prefix}{self.counter}"
        if self.rng.random() < 0.3:
            self.pool.append(nm)
        return nm

    def self_import(self, ind: str, in_class: bool) -> str:
        """An import of the module's *own* path (the module is visited under the name ``modname``): at module level
        ``from m import x [as x]`` binds a name to itself (no member), anywhere else - and under any other name - it is an
        ordinary alias of a sibling definition."""
        rng = self.rng
        nm = rng.choice(self.pool)
        src_mod = self.modname
        if in_class and rng.random() < 0.3:
            src_mod += "." + rng.choice(self.pool)  # from m.Kls import x (possibly the class being defined itself)
        r = rng.random()
        if r < 0.5:
            return f"{ind}from {src_mod} import {nm}\n"
        if r < 0.75:
            return f"{ind}from {src_mod} import {nm} as {nm}\n"
        return f"{ind}from {src_mod} import {nm} as {rng.choice(self.pool)}, {rng.choice(self.pool)}\n"

    def docstring(self, ind: str) -> str:
        r = self.rng.random()
        if r < 0.4:
            return ""
        if r < 0.47:
            # first content line indented deeper than a later one (cleandoc keeps that indentation)
            return f'{ind}"""\n{ind}        deeper first {self.counter}\n{ind}later line\n{ind}"""\n'
        if r < 0.7:
            return f'{ind}"""One line doc {self.counter}."""\n'
        return f'{ind}"""Summary {self.counter}.\n\n{ind}Longer text\n{ind}over lines.\n{ind}"""\n'

    def params(self, first: str | None) -> str:
        ps = [first] if first else []
        for i in range(self.rng.randint(0, 3)):
            p = f"p{i}"
            if self.rng.random() < 0.4:
                p += ": " + self.rng.choice(ANNOTS)
                if self.rng.random() < 0.5:
                    p += " = " + self.rng.choice(["0", "None", "'d'"])
            elif self.rng.random() < 0.4:
                p += "=" + self.rng.choice(["0", "None"])
            ps.append(p)
        ps.sort(key=lambda s: "=" in s)
        if first and first in ps:
            ps.remove(first)
            ps.insert(0, first)
        if self.rng.random() < 0.25 and len(ps) > 1:
            return "\n" + "".join(f"        {p},\n" for p in ps) + "    "
        return ", ".join(ps)

    def function(self, ind: str, in_class: bool, name: str | None = None) -> str:
        rng = self.rng
        nm = name or self.name("f")
        decos = []
        pool = DECOS_ANY + (DECOS_CLASS_SCOPE if in_class else [])
        for _ in range(rng.choice([0, 1, 1, 2])):
            d = rng.choice(pool)
            if d and d not in decos:
                decos.append(d)
        is_prop = any(d in ("@property", "@cached_property", "@functools.cached_property") for d in decos)
        if is_prop:
            decos = [d for d in decos if d not in ("@staticmethod", "@classmethod")]
        first = None
        if in_class:
            first = None if "@staticmethod" in decos else ("cls" if "@classmethod" in decos else "self")
        src = "".join(ind + d.replace("\n", "\n" + ind) + "\n" for d in decos)
        kw = "async def" if (rng.random() < 0.15 and not is_prop) else "def"
        ret = rng.choice(["", "", " -> int", " -> 'Fwd'"])
        params = "self" if is_prop else self.params(first).replace("\n        ", "\n" + ind + "        ").replace("\n    ", "\n" + ind)
        src += f"{ind}{kw} {nm}({params}){ret}:\n"
        src += self.docstring(ind + "    ")
        src += f"{ind}    local = 1\n{ind}    return local\n"
        if is_prop and "@property" in decos and rng.random() < 0.5:
            for what in rng.sample(["setter", "deleter"], rng.randint(1, 2)):
                sig = "self, value" if what == "setter" else "self"
                src += f"{ind}@{nm}.{what}\n{ind}def {nm}({sig}):\n{ind}    pass\n"
        return src

    def overloads(self, ind: str, in_class: bool) -> str:
        nm = self.name("ov")
        selfp = "self, " if in_class else ""
        src = ""
        for t in ["int", "str"][: self.rng.randint(1, 2)]:
            src += f"{ind}@{self.rng.choice(['overload', 'typing.overload'])}\n{ind}def {nm}({selfp}x: {t}) -> {t}: ...\n"
        if self.rng.random() < 0.8:
            src += f"{ind}def {nm}({selfp}x):\n{ind}    return x\n"
        return src

    def assignment(self, ind: str, in_class: bool) -> str:
        rng = self.rng
        nm = self.name("v")
        val = rng.choice(VALUES).replace("\n    ", "\n" + ind + "    ")
        r = rng.random()
        if r < 0.4:
            src = f"{ind}{nm} = {val}\n"
        elif r < 0.5:
            src = f"{ind}{nm} = {self.name('v')} = {val}\n"
        elif r < 0.75:
            src = f"{ind}{nm}: {rng.choice(ANNOTS)} = {val}\n"
        elif r < 0.85:
            src = f"{ind}{nm}: {rng.choice(ANNOTS)}\n"
        elif r < 0.92 and in_class:
            src = f"{ind}{nm}: ClassVar[{rng.choice(ANNOTS)}] = {val}\n"
        elif self.hostile and r < 0.96:
            src = f"{ind}{nm}, other = 1, 2\n"
        elif self.hostile:
            src = f"{ind}obj.{nm} = {val}\n{ind}tbl[{nm!r}] = 1\n"
        else:
            src = f"{ind}{nm} = {val}\n"
        if rng.random() < 0.35:
            src += f'{ind}"""Attribute doc for {nm}."""\n'
        return src

    def init_method(self, ind: str) -> str:
        rng = self.rng
        src = f"{ind}def __init__(self, a=0, b: int = 1) -> None:\n"
        src += self.docstring(ind + "    ")
        body = ""
        for _ in range(rng.randint(1, 4)):
            nm = self.name("i")
            r = rng.random()
            if r < 0.4:
                line = f"self.{nm} = a\n"
            elif r < 0.65:
                line = f"self.{nm}: int = b\n"
            elif r < 0.75:
                line = f"self.{nm}.deep = 1\n"
            elif r < 0.85:
                line = f"local_{nm} = 2\n"
            else:
                line = f"self.{nm} = self.{self.name('i')} = a\n"
            if rng.random() < 0.25:
                body += f"{ind}    if a:\n{ind}        {line}"
            else:
                body += f"{ind}    {line}"
                if rng.random() < 0.3 and line.startswith("self.") and ".deep" not in line:
                    body += f'{ind}    """Instance attribute doc."""\n'
        if self.hostile and rng.random() < 0.6:
            # definitions nested in __init__ (its body is visited with the method as current scope): plain / decorated /
            # overloaded functions, property groups, classes, imports - totality only, the structural model stops at `self.x`
            i2 = ind + "    "
            for _ in range(rng.randint(1, 3)):
                nm = self.name("n")
                body += rng.choice([
                    f"{i2}def {nm}(x): ...\n",
                    f"{i2}@overload\n{i2}def {nm}(x: int) -> int: ...\n{i2}@overload\n{i2}def {nm}(x: str) -> str: ...\n{i2}def {nm}(x): ...\n",
                    f"{i2}@typing.overload\n{i2}def {nm}(x: int) -> int: ...\n",
                    f"{i2}@property\n{i2}def {nm}(s): ...\n{i2}@{nm}.setter\n{i2}def {nm}(s, v): ...\n",
                    f"{i2}@{nm}.setter\n{i2}def {nm}(s, v): ...\n",
                    f"{i2}@functools.cached_property\n{i2}def {nm}(s): ...\n",
                    f"{i2}async def {nm}(x): ...\n",
                    f"{i2}class {nm}:\n{i2}    y = 1\n{i2}    def m(self): ...\n",
                    f"{i2}import os.path as {nm}\n",
                    f"{i2}from os import path as {nm}\n",
                    f"{i2}{nm} = lambda q: q\n",
                    f"{i2}__all__ = ['{nm}']\n",
                    f"{i2}if TYPE_CHECKING:\n{i2}    def {nm}(): ...\n",
                ])
        return src + body

    def klass(self, ind: str, depth: int) -> str:
        rng = self.rng
        nm = self.name("C")
        deco = rng.choice(CLASS_DECOS)
        bases = rng.choice(["", "", "(Base)", "(abc.ABC)", "(Base, metaclass=abc.ABCMeta)", "(mod.Base, typing.Generic[T])"])
        src = (ind + deco + "\n" if deco else "") + f"{ind}class {nm}{bases}:\n"
        src += self.docstring(ind + "    ")
        src += self.body(ind + "    ", depth + 1, in_class=True)
        return src

    def wrapper(self, ind: str, depth: int, in_class: bool, wdepth: int) -> str:
        rng = self.rng
        inner = lambda: self.body(ind + "    ", depth, in_class, wdepth + 1, small=True)  # noqa: E731
        r = rng.random()
        if r < 0.25:
            return f"{ind}if {rng.choice(CONDS)}:\n{inner()}"
        if r < 0.4 and wdepth == 0:
            # the type-checking guard is recognised by its spelling: a name of that spelling bound to something else first
            # (the import-free `TYPE_CHECKING = False` idiom, a compat module) changes nothing, a compound condition is no guard
            pre = rng.choice(["", "", "", f"{ind}TYPE_CHECKING = False\n", f"{ind}from compat import TYPE_CHECKING\n",
                              f"{ind}import typing\n"])
            cond = rng.choice(["TYPE_CHECKING", "TYPE_CHECKING", "typing.TYPE_CHECKING", "not TYPE_CHECKING", "not typing.TYPE_CHECKING",
                               "TYPE_CHECKING or flag", "flag or typing.TYPE_CHECKING", "(TYPE_CHECKING)", "TYPE_CHECKING is True",
                               "t.TYPE_CHECKING"])
            src = f"{pre}{ind}if {cond}:\n{inner()}"
            if rng.random() < 0.3:
                src += f"{ind}else:\n{self.nonstring_first(inner)}"
            return src
        if r < 0.55:
            return f"{ind}if {rng.choice(CONDS)}:\n{inner()}{ind}else:\n{self.nonstring_first(inner)}"
        if r < 0.75:
            src = f"{ind}try:\n{inner()}{ind}except ImportError:\n{self.nonstring_first(inner)}"
            if rng.random() < 0.4:
                src += f"{ind}else:\n{self.nonstring_first(inner)}"
            if rng.random() < 0.4:
                src += f"{ind}finally:\n{self.nonstring_first(inner)}"
            return src
        if r < 0.85:
            return f"{ind}for _i in range(2):\n{inner()}"
        if r < 0.92:
            return f"{ind}while flag:\n{inner()}"
        return f"{ind}with ctx() as cm:\n{inner()}"

    def nonstring_first(self, inner) -> str:  # noqa: ANN001
        """A block that never *starts* with a bare string statement (kept out of the clean domain, see DESIGN C01)."""
        for _ in range(20):
            txt = inner()
            if not txt.lstrip().startswith(('"', "'")):
                return txt
        return txt

    def body(self, ind: str, depth: int, in_class: bool, wdepth: int = 0, small: bool = False) -> str:
        rng = self.rng
        n = rng.randint(1, 3) if small else rng.randint(3, 9)
        src = ""
        for _ in range(n):
            r = rng.random()
            if r < 0.25:
                src += self.function(ind, in_class)
            elif r < 0.32:
                src += self.overloads(ind, in_class)
            elif r < 0.45 and depth < self.max_depth:
                src += self.klass(ind, depth)
            elif r < 0.72:
                src += self.assignment(ind, in_class)
            elif r < 0.82:
                if rng.random() < 0.25:
                    src += self.self_import(ind, in_class)
                else:
                    src += ind + rng.choice([i for i in IMPORTS if not (in_class and "*" in i)]) + "\n"
            elif r < 0.845:
                # characters str.splitlines() breaks on but Python's line numbering does not: a form-feed line, and separators
                # inside a comment or a string literal
                odd = rng.choice(["\x0c", "\x0b", "\x1c", "\x1d", "\x1e", "\x85", "\u2028", "\u2029"])
                # (a form-feed or comment line is no statement: it always comes with one, so that a block is never left empty)
                src += rng.choice([f"{ind}\x0c\n", f"{ind}# note {odd} continued\n", ""]) + f"{ind}{self.name('v')} = 'a{odd}b'\n"
            elif r < 0.94 and wdepth < 2:
                src += self.wrapper(ind, depth, in_class, wdepth)
            elif not in_class and wdepth == 0:
                src += self.all_stmt(ind)
            else:
                src += self.assignment(ind, in_class)
            if rng.random() < 0.15:
                src += "\n" if rng.random() < 0.5 else f"{ind}# a comment\n"
        if in_class and not small and rng.random() < 0.5:
            src += self.init_method(ind)
        return src or f"{ind}pass\n"

    def all_stmt(self, ind: str) -> str:
        rng = self.rng
        names = rng.sample(self.pool, min(len(self.pool), rng.randint(1, 3)))
        form = rng.random()
        if form >= 0.8 and not (self.hostile or getattr(self, "_all_seen", False)):
            form = 0.1
        if form < 0.8:
            self._all_seen = True
        if form < 0.4:
            return f"{ind}__all__ = {names!r}\n"
        if form < 0.6:
            return f"{ind}__all__ = {tuple(names)!r}\n"
        if form < 0.8:
            return f"{ind}__all__ = {names[:1]!r} + {names[1:]!r}\n"
        return f"{ind}__all__ += {names!r}\n"

    def module(self) -> str:
        src = self.rng.choice(['"""Module doc."""\n', "", '"""Module summary.\n\nMore.\n"""\n'])
        if self.rng.random() < 0.3:
            src += "from __future__ import annotations\n"
        src += PRELUDE
        src += self.body("", 0, in_class=False)
        return src
