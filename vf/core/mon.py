"""M-MON: sys.monitoring based monitors (reach, logical step budgets, stack depth).

* ``Reach``  — records which functions of ``$VERIF_REPO/src/_griffe`` were entered at least
  once (each code object reports once and is then DISABLEd, so the cost is negligible).
* ``Steps``  — counts function entries inside ``_griffe`` and raises ``StepBudgetExceeded``
  (a BaseException, so ``except Exception`` in the code under test cannot swallow it) when a
  per-case budget is exhausted: "terminates" restated as bounded logical progress.
"""
from __future__ import annotations

import os
import sys

REPO_SRC = os.path.join(os.path.realpath(os.environ.get("VERIF_REPO", "/repo")), "src")
GRIFFE_DIR = os.path.join(REPO_SRC, "_griffe")

_mon = sys.monitoring
REACH_TOOL = 3
STEP_TOOL = 4


class StepBudgetExceeded(BaseException):
    pass


class Reach:
    def __init__(self) -> None:
        self.seen: set[str] = set()
        self.active = False

    def start(self) -> None:
        try:
            _mon.use_tool_id(REACH_TOOL, "vf-reach")
        except ValueError:
            return
        _mon.register_callback(REACH_TOOL, _mon.events.PY_START, self._on_start)
        _mon.set_events(REACH_TOOL, _mon.events.PY_START)
        self.active = True

    def _on_start(self, code, offset):  # noqa: ANN001
        fn = code.co_filename
        if fn.startswith(GRIFFE_DIR):
            self.seen.add(fn[len(GRIFFE_DIR) + 1:] + "::" + code.co_qualname)
        return _mon.DISABLE

    def stop(self) -> None:
        if self.active:
            _mon.set_events(REACH_TOOL, 0)
            _mon.free_tool_id(REACH_TOOL)
            self.active = False


class Steps:
    """Function-entry counter with a budget; also tracks the deepest _griffe call stack."""

    def __init__(self) -> None:
        self.count = 0
        self.budget = 0
        self.depth = 0
        self.max_depth = 0
        self.installed = False
        self.tripped = False

    def install(self) -> None:
        if self.installed:
            return
        if _mon.get_tool(STEP_TOOL) is not None:  # another Steps instance of this process: take the tool over
            _mon.set_events(STEP_TOOL, 0)
            _mon.free_tool_id(STEP_TOOL)
        _mon.use_tool_id(STEP_TOOL, "vf-steps")
        ev = _mon.events
        _mon.register_callback(STEP_TOOL, ev.PY_START, self._start)
        _mon.register_callback(STEP_TOOL, ev.PY_RETURN, self._ret)
        _mon.register_callback(STEP_TOOL, ev.PY_UNWIND, self._unw)
        self.installed = True

    def begin(self, budget: int) -> None:
        self.install()
        self.count = 0
        self.depth = 0
        self.max_depth = 0
        self.budget = budget
        self.tripped = False
        ev = _mon.events
        _mon.set_events(STEP_TOOL, ev.PY_START | ev.PY_RETURN | ev.PY_UNWIND)

    def end(self) -> tuple[int, int]:
        _mon.set_events(STEP_TOOL, 0)
        return self.count, self.max_depth

    def _start(self, code, offset):  # noqa: ANN001
        if not code.co_filename.startswith(GRIFFE_DIR):
            return _mon.DISABLE
        self.count += 1
        self.depth += 1
        if self.depth > self.max_depth:
            self.max_depth = self.depth
        if self.count > self.budget and not self.tripped:
            self.tripped = True
            _mon.set_events(STEP_TOOL, 0)
            raise StepBudgetExceeded(f"more than {self.budget} function entries in _griffe")
        return None

    def _ret(self, code, offset, retval):  # noqa: ANN001
        if not code.co_filename.startswith(GRIFFE_DIR):
            return _mon.DISABLE
        self.depth -= 1
        return None

    def _unw(self, code, offset, exc):  # noqa: ANN001
        if code.co_filename.startswith(GRIFFE_DIR):
            self.depth -= 1
        return None


def anchored_functions(files: list[str]) -> set[str]:
    """All function qualnames defined in the given files (relative to src/_griffe), by compiling them."""
    out: set[str] = set()

    def walk(code, rel):  # noqa: ANN001
        for const in code.co_consts:
            if hasattr(const, "co_qualname"):
                if not const.co_name.startswith("<"):
                    out.add(rel + "::" + const.co_qualname)
                walk(const, rel)

    for rel in files:
        path = os.path.join(GRIFFE_DIR, rel)
        try:
            with open(path) as fh:
                src = fh.read()
            walk(compile(src, path, "exec"), rel)
        except (OSError, SyntaxError):
            continue
    return out
