"""Per-shard recorder (runs in the child interpreter).

A check's ``run_shard(spec, rec)`` reports every executed case through one of
``rec.ok / rec.fail / rec.skip / rec.inconclusive``.  The recorder aggregates inside the
child (counts, distinct digests, tag histograms, a few literal samples, all failures) and
dumps one JSON document at the end; the parent merges the documents of all shards.
"""
from __future__ import annotations

import hashlib
import json
import os
import traceback
from collections import Counter
from typing import Any

_KNOWN_CACHE: dict | None = None


def verif_home() -> str:
    return os.environ.get("VERIF_HOME") or os.path.dirname(os.path.dirname(os.path.dirname(os.path.abspath(__file__))))


def known_findings() -> dict[str, dict]:
    """id -> entry of the committed known_findings.json (never written at run time)."""
    global _KNOWN_CACHE
    if _KNOWN_CACHE is None:
        import glob

        _KNOWN_CACHE = {}
        paths = [os.path.join(verif_home(), "known_findings.json")]
        paths += sorted(glob.glob(os.path.join(verif_home(), "known_findings.d", "*.json")))  # staging area while building
        for path in paths:
            try:
                with open(path) as fh:
                    data = json.load(fh)
            except FileNotFoundError:
                continue
            for f in data.get("findings", []):
                _KNOWN_CACHE[f["id"]] = f
    return _KNOWN_CACHE


def digest(obj: Any) -> str:
    if not isinstance(obj, (str, bytes)):
        obj = json.dumps(obj, sort_keys=True, default=repr)
    if isinstance(obj, str):
        obj = obj.encode("utf8", "surrogatepass")
    return hashlib.blake2b(obj, digest_size=8).hexdigest()


def jsonable(obj: Any, depth: int = 0) -> Any:
    """Best-effort conversion of a witness to JSON."""
    if depth > 8:
        return repr(obj)[:200]
    if obj is None or isinstance(obj, (bool, int, float, str)):
        return obj
    if isinstance(obj, (list, tuple, set, frozenset)):
        seq = list(obj)
        if isinstance(obj, (set, frozenset)):
            seq = sorted(seq, key=repr)
        return [jsonable(x, depth + 1) for x in seq]
    if isinstance(obj, dict):
        return {str(k): jsonable(v, depth + 1) for k, v in obj.items()}
    return repr(obj)[:400]


class Recorder:
    MAX_FAILS = 25
    MAX_SAMPLES = 3

    def __init__(self, prop: str, spec: dict) -> None:
        self.prop = prop
        self.spec = spec
        self.evaluations = 0
        self.nontrivial: set[str] = set()
        self.all_digests: set[str] = set()
        self.tags: Counter[str] = Counter()
        self.counters: Counter[str] = Counter()
        self.samples: list[Any] = []
        self.fails: list[dict] = []
        self.n_fail = 0
        self.known: dict[str, dict] = {}
        self.n_skip = 0
        self.n_inc = 0
        self.incs: list[dict] = []
        self.maxima: dict[str, float] = {}
        self.notes: list[str] = []
        self.sets: dict[str, set] = {}

    # -- bookkeeping --------------------------------------------------------------------
    def _case(self, case: Any, nontrivial: bool, tags=(), dig: str | None = None) -> str:
        d = dig or digest(case)
        self.evaluations += 1
        self.all_digests.add(d)
        if nontrivial:
            self.nontrivial.add(d)
        for t in tags:
            self.tags[t] += 1
        if len(self.samples) < self.MAX_SAMPLES and (nontrivial or self.evaluations > 20):
            self.samples.append(jsonable(case))
        return d

    def count(self, name: str, n: int = 1) -> None:
        self.counters[name] += n

    def maximum(self, name: str, value: float) -> None:
        if value > self.maxima.get(name, float("-inf")):
            self.maxima[name] = value

    def add_to_set(self, name: str, item: str) -> None:
        self.sets.setdefault(name, set()).add(item)

    def note(self, text: str) -> None:
        if text not in self.notes and len(self.notes) < 20:
            self.notes.append(text)

    # -- outcomes -----------------------------------------------------------------------
    def ok(self, case: Any, nontrivial: bool = False, tags=(), dig: str | None = None) -> None:
        self._case(case, nontrivial, tags, dig)

    def skip(self, reason: str) -> None:
        """A generated case that is outside the property's domain (not judged, not counted)."""
        self.n_skip += 1
        self.tags["skip:" + reason] += 1

    def inconclusive(self, case: Any, reason: str) -> None:
        self.n_inc += 1
        if len(self.incs) < 5:
            self.incs.append({"reason": reason, "input": jsonable(case)})

    def fail(self, case: Any, what: str, observed: Any = None, expected: Any = None,
             finding: str | None = None, nontrivial: bool = True, tags=(), tb: str | None = None,
             tried=()) -> None:
        """A refutation.  ``finding`` is the id returned by the check's mechanism classifier."""
        d = self._case(case, nontrivial, tags)
        entry = known_findings().get(finding) if finding else None
        if entry is not None and entry.get("property") == self.prop and entry.get("status") == "known":
            k = self.known.setdefault(finding, {"count": 0, "first": None})
            k["count"] += 1
            if k["first"] is None:
                k["first"] = {"input": jsonable(case), "what": what, "observed": jsonable(observed),
                              "expected": jsonable(expected)}
            return
        self.n_fail += 1
        if len(self.fails) < self.MAX_FAILS:
            self.fails.append({
                "digest": d, "what": what, "input": jsonable(case), "observed": jsonable(observed),
                "expected": jsonable(expected), "traceback": tb,
                "classifier": {"matched": finding, "tried": list(tried),
                               "note": ("classifier matched a finding that is not status=known "
                                        "(fixed findings suppress nothing)") if finding else None},
            })

    def fail_exc(self, case: Any, what: str, exc: BaseException, **kw: Any) -> None:
        tb = "".join(traceback.format_exception(type(exc), exc, exc.__traceback__))[-4000:]
        self.fail(case, what, observed=f"{type(exc).__name__}: {exc}"[:500], tb=tb, **kw)

    # -- dump ---------------------------------------------------------------------------
    def dump(self) -> dict:
        return {
            "spec": self.spec, "evaluations": self.evaluations,
            "nontrivial": sorted(self.nontrivial), "n_distinct": len(self.all_digests),
            "tags": dict(self.tags), "counters": dict(self.counters), "samples": self.samples,
            "fails": self.fails, "n_fail": self.n_fail, "known": self.known,
            "n_skip": self.n_skip, "n_inc": self.n_inc, "incs": self.incs,
            "maxima": self.maxima, "notes": self.notes,
            "sets": {k: sorted(v) for k, v in self.sets.items()},
        }


def pinned_result(sub: Recorder, finding: dict) -> dict:
    """Verdict of replaying one listed witness into a scratch recorder.

    known  -> reproduced iff the classifier matched *this* finding again.
    fixed  -> reproduced iff an unlisted failure occurred (hitting another known finding is not this defect returning).
    """
    if finding.get("status") == "known":
        reproduced = finding["id"] in sub.known
    else:
        reproduced = bool(sub.n_fail)
    if sub.fails:
        detail = sub.fails[0]["what"] + " :: " + str(sub.fails[0].get("observed"))[:200]
    elif sub.known:
        k = next(iter(sub.known.items()))
        detail = f"{k[0]}: {k[1]['first']['what']}"
    else:
        detail = "passes"
    return {"reproduced": reproduced, "detail": detail}
