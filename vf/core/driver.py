"""Parent-side driver: shard a check, run shards in fresh child interpreters, aggregate,
classify, write evidence + replay files, print the verdict.

Exit codes: 0 held / 1 violated / 2 inconclusive (never folded into held).
"""
from __future__ import annotations

import json
import os
import shutil
import subprocess
import sys
import tempfile
import time
from collections import Counter
from concurrent.futures import ThreadPoolExecutor

from vf.core import mon
from vf.core.rec import known_findings, verif_home

CHECK_VERSION = 1


def _run_child(prop: str, spec: dict, timeout: float, scratch: str, idx: int) -> dict:
    spec_path = os.path.join(scratch, f"spec{idx}.json")
    out_path = os.path.join(scratch, f"out{idx}.json")
    with open(spec_path, "w") as fh:
        json.dump(spec, fh)
    env = dict(os.environ)
    child_tmp = os.path.join(scratch, f"tmp{idx}")
    os.makedirs(child_tmp, exist_ok=True)
    env["TMPDIR"] = child_tmp
    try:
        proc = subprocess.run([sys.executable, "-m", "vf.child", prop, spec_path, out_path], env=env,
                              stdout=subprocess.PIPE, stderr=subprocess.PIPE, timeout=timeout, check=False,
                              cwd=child_tmp, stdin=subprocess.DEVNULL)
    except subprocess.TimeoutExpired:
        return {"spec": spec, "status": f"shard watchdog fired after {timeout}s", "dead": True}
    finally:
        pass
    if not os.path.exists(out_path):
        return {"spec": spec, "status": f"child died rc={proc.returncode}: {proc.stderr.decode(errors='replace')[-2000:]}",
                "dead": True}
    with open(out_path) as fh:
        out = json.load(fh)
    shutil.rmtree(child_tmp, ignore_errors=True)
    if out.get("status", "done") != "done":
        out["dead"] = True
    out["stderr_tail"] = proc.stderr.decode(errors="replace")[-500:]
    return out


def run(check, tier: str, seed: int, replay: str | None = None) -> int:  # noqa: ANN001, C901, PLR0912, PLR0915
    prop = check.PROP
    t0 = time.time()
    home = verif_home()
    scratch = tempfile.mkdtemp(prefix=f"vf-{prop}-")
    try:
        if replay:
            return _replay(check, replay, scratch)
        specs = check.shards(tier, seed)
        for i, s in enumerate(specs):
            s.setdefault("mode", "shard")
            s["tier"] = tier
            s["shard"] = i
            s.setdefault("seed", seed * 100003 + i)
        pinned_entries = [f for f in known_findings().values() if f.get("property") == prop]
        jobs = list(specs)
        if pinned_entries and hasattr(check, "run_pinned"):
            jobs.append({"mode": "pinned", "findings": pinned_entries, "tier": tier, "seed": seed})
        timeout = getattr(check, "SHARD_TIMEOUT", {"quick": 900, "thorough": 7200})[tier]
        workers = int(os.environ.get("VERIF_JOBS", "16"))
        with ThreadPoolExecutor(max_workers=workers) as pool:
            outs = list(pool.map(lambda a: _run_child(prop, a[1], timeout, scratch, a[0]), enumerate(jobs)))
        return _aggregate(check, tier, seed, outs, t0, home)
    finally:
        shutil.rmtree(scratch, ignore_errors=True)


def _replay(check, path: str, scratch: str) -> int:  # noqa: ANN001
    with open(path) as fh:
        doc = json.load(fh)
    out = _run_child(check.PROP, {"mode": "replay", "input": doc["input"], "tier": doc.get("tier", "quick"),
                                  "seed": doc.get("seed", 0)}, 900, scratch, 0)
    if out.get("dead"):
        print(f"INCONCLUSIVE property={check.PROP} replay child: {out.get('status')}")
        return 2
    if out["n_fail"]:
        print(json.dumps(out["fails"][0], indent=1)[:4000])
        print(f"VIOLATION property={check.PROP} replay={path}")
        return 1
    for fid, k in out["known"].items():
        print(f"KNOWN-FINDING: property={check.PROP} {fid} (replayed input matches a listed finding)")
    print(f"HELD property={check.PROP} on replayed input ({out['evaluations']} evaluation(s))")
    return 0


def _aggregate(check, tier, seed, outs, t0, home) -> int:  # noqa: ANN001, C901, PLR0912, PLR0915
    prop = check.PROP
    evaluations = 0
    nontrivial: set[str] = set()
    tags: Counter = Counter()
    counters: Counter = Counter()
    maxima: dict = {}
    samples: list = []
    fails: list = []
    n_fail = 0
    known: dict = {}
    n_skip = n_inc = 0
    incs: list = []
    reach: set[str] = set()
    notes: list[str] = []
    sets: dict[str, set] = {}
    dead: list[str] = []
    pinned_results = None
    n_distinct = 0
    for out in outs:
        if out.get("dead"):
            dead.append(f"shard {out['spec'].get('shard', out['spec'].get('mode'))}: {out.get('status')}")
            if "evaluations" not in out:
                continue
        if out["spec"].get("mode") == "pinned":
            pinned_results = out.get("pinned") or {}
            reach.update(out.get("reach", []))
            continue
        evaluations += out["evaluations"]
        n_distinct += out["n_distinct"]
        nontrivial.update(out["nontrivial"])
        tags.update(out["tags"])
        counters.update(out["counters"])
        for k, v in out["maxima"].items():
            maxima[k] = max(maxima.get(k, v), v)
        if len(samples) < 4:
            samples.extend(out["samples"][: 4 - len(samples)])
        fails.extend(out["fails"])
        n_fail += out["n_fail"]
        for fid, k in out["known"].items():
            agg = known.setdefault(fid, {"count": 0, "first": k["first"]})
            agg["count"] += k["count"]
        n_skip += out["n_skip"]
        n_inc += out["n_inc"]
        incs.extend(out["incs"])
        reach.update(out["reach"])
        for n in out["notes"]:
            if n not in notes:
                notes.append(n)
        for k, v in out.get("sets", {}).items():
            sets.setdefault(k, set()).update(v)

    anchors = mon.anchored_functions(getattr(check, "ANCHORS", []))
    reached_anchored = sorted(anchors & reach)
    exit_code = 0
    lines: list[str] = []

    # pinned witnesses of listed findings -------------------------------------------------
    listed = {f["id"]: f for f in known_findings().values() if f.get("property") == prop}
    for fid, entry in sorted(listed.items()):
        res = (pinned_results or {}).get(fid)
        seen = known.get(fid, {}).get("count", 0)
        if entry.get("status") == "known":
            if res is None:
                state = "witness not replayed"
            elif res.get("reproduced"):
                state = "witness replayed: still fails"
            else:
                state = "witness replayed: no longer fails (" + str(res.get("detail", ""))[:120] + ")"
            if (res and res.get("reproduced")) or seen:
                lines.append(f"KNOWN-FINDING: property={prop} {fid}: {entry.get('mechanism', '')} "
                             f"(reproduced in {seen} generated case(s); {state})")
            else:
                lines.append(f"NOTE: listed finding {fid} did not reproduce in this run ({state})")
        elif str(entry.get("status", "")).startswith("fixed"):
            if res is not None and res.get("reproduced"):
                n_fail += 1
                fails.append({"digest": "pinned-" + fid, "what": f"witness of FIXED finding {fid} fails again",
                              "input": entry.get("witness"), "observed": res.get("detail"), "expected": "pass",
                              "classifier": {"matched": fid, "tried": []}})

    # violations ---------------------------------------------------------------------------
    replay_dir = os.path.join(os.environ.get("VERIF_REPLAY_DIR") or os.path.join(home, "replay"), prop)
    shutil.rmtree(replay_dir, ignore_errors=True)  # witnesses of earlier runs would be mistaken for current ones
    if fails:
        os.makedirs(replay_dir, exist_ok=True)
        seen_dig = set()
        for f in fails[:10]:
            if f["digest"] in seen_dig:
                continue
            seen_dig.add(f["digest"])
            path = os.path.join(replay_dir, f["digest"] + ".json")
            with open(path, "w") as fh:
                json.dump({"property": prop, "tier": tier, "seed": seed, "check_version": CHECK_VERSION, **f}, fh, indent=1)
            lines.append(f"  what: {f['what']}  observed: {str(f.get('observed'))[:300]}")
            lines.append(f"VIOLATION property={prop} replay={path}")
        exit_code = 1

    # inconclusive -------------------------------------------------------------------------
    inconclusive_reasons: list[str] = list(dead)
    if n_inc:
        inconclusive_reasons.append(f"{n_inc} case(s) inconclusive, e.g. {json.dumps(incs[0])[:400]}")
    for name in getattr(check, "REQUIRED_COUNTERS", []):
        if counters.get(name, 0) == 0:
            inconclusive_reasons.append(f"deciding monitor '{name}' was never evaluated")
    if anchors and not reached_anchored:
        inconclusive_reasons.append("no anchored function was reached")
    if len(nontrivial) < 2:
        inconclusive_reasons.append("fewer than 2 distinct non-trivial cases")
    if inconclusive_reasons and exit_code == 0:
        exit_code = 2

    wall = time.time() - t0
    exhaustive = bool(getattr(check, "EXHAUSTIVE", {}).get(tier, False)) and not dead
    evidence = {
        "property_id": prop, "tier": tier, "seed": seed, "level": check.LEVEL,
        "coverage": {
            "evaluations": evaluations, "distinct_nontrivial": len(nontrivial),
            "distinct_cases": n_distinct,
            "rule": check.RULE, "samples": samples[:4] or [None], "exhaustive": exhaustive,
            "monitor_evaluations": dict(sorted(counters.items())),
            "observed_maxima": maxima,
            "case_tags": dict(sorted(tags.items())),
            "observed_sets": {k: sorted(v) for k, v in sorted(sets.items())},
            "anchored_functions_reached": len(reached_anchored), "anchored_functions_total": len(anchors),
            "anchored_functions_not_reached": sorted(anchors - reach)[:60],
            "griffe_functions_reached": len(reach),
            "skipped_out_of_domain": n_skip, "inconclusive_cases": n_inc,
            "known_findings_reproduced": {k: v["count"] for k, v in known.items()},
            "known_finding_examples": {k: v["first"] for k, v in known.items()},
            "pinned_witnesses": pinned_results or {},
            "shards": len([o for o in outs if o["spec"].get("mode") == "shard"]),
            "notes": notes,
            "verdict": {0: "held", 1: "violated", 2: "inconclusive"}[exit_code],
            "inconclusive_reasons": inconclusive_reasons,
        },
        "assumptions": list(getattr(check, "ASSUMPTIONS", [])),
        "wall_s": round(wall, 2), "violations": n_fail,
    }
    ev_dir = os.environ.get("VERIF_EVIDENCE_DIR") or os.path.join(home, "evidence")
    os.makedirs(ev_dir, exist_ok=True)
    with open(os.path.join(ev_dir, prop + ".json"), "w") as fh:
        json.dump(evidence, fh, indent=1, sort_keys=True)
        fh.write("\n")

    for line in lines:
        print(line)
    print(f"{prop} [{tier}, seed {seed}] evaluations={evaluations} distinct_nontrivial={len(nontrivial)} "
          f"known={sum(v['count'] for v in known.values())} violations={n_fail} skipped={n_skip} "
          f"reach={len(reached_anchored)}/{len(anchors)} wall={wall:.1f}s")
    print("  monitors: " + ", ".join(f"{k}={v}" for k, v in sorted(counters.items())))
    if exit_code == 2:
        for r in inconclusive_reasons:
            print(f"INCONCLUSIVE property={prop}: {r[:1500]}")
    elif exit_code == 0:
        print(f"HELD property={prop} on everything explored")
    return exit_code
