"""Small helpers shared by the checks (all run inside the child interpreter)."""
from __future__ import annotations

import os
import shutil
import signal
import tempfile
from contextlib import contextmanager
from pathlib import Path


def visit_source(code: str, name: str = "m", *, extensions=None, collection=None, lines=None, **kw):  # noqa: ANN001
    """Visit a single module from text, without touching the filesystem."""
    import griffe

    lines = lines if lines is not None else griffe.LinesCollection()
    path = Path(f"/nonexistent-vf/{name}.py")
    # Python's lines: "\n" only (str.splitlines() also breaks on form feed, U+2028, ... which are ordinary characters in source)
    lines[path] = code.split("\n")[:-1] if code.endswith("\n") else code.split("\n")
    module = griffe.visit(name, filepath=path, code=code, extensions=extensions,
                          lines_collection=lines, modules_collection=collection, **kw)
    module.modules_collection[name] = module
    return module


@contextmanager
def tmp_tree(files: dict[str, str | bytes], prefix: str = "vfpkg-"):
    """Write ``files`` (relative path -> content) under a fresh temporary directory."""
    root = tempfile.mkdtemp(prefix=prefix)
    try:
        for rel, content in files.items():
            p = os.path.join(root, rel)
            os.makedirs(os.path.dirname(p), exist_ok=True)
            mode = "wb" if isinstance(content, bytes) else "w"
            with open(p, mode) as fh:
                fh.write(content)
        yield Path(root)
    finally:
        shutil.rmtree(root, ignore_errors=True)


def load_files(files: dict[str, str], package: str, **opts):  # noqa: ANN001
    """Write a package to a temp dir, load it statically, return (module, loader)."""
    import griffe

    with tmp_tree(files) as root:
        loader = griffe.GriffeLoader(
            search_paths=[root], allow_inspection=opts.pop("allow_inspection", False),
            extensions=opts.pop("extensions", None), docstring_parser=opts.pop("docstring_parser", None),
            store_source=opts.pop("store_source", True),
        )
        resolve = opts.pop("resolve_aliases", False)
        implicit = opts.pop("resolve_implicit", False)
        external = opts.pop("resolve_external", None)
        mod = loader.load(package, **opts)
        if resolve:
            loader.resolve_aliases(implicit=implicit, external=external)
        return mod, loader


@contextmanager
def case_watchdog(seconds: int):
    """Wall-clock watchdog for one case: raises vf.child.CaseTimeout (a BaseException) in the main thread."""
    signal.alarm(seconds)
    try:
        yield
    finally:
        signal.alarm(0)


def contract_post(func, post, counter: list, error):  # noqa: ANN001
    """Fallback post-condition wrapper used when icontract is not importable."""
    import functools

    @functools.wraps(func)
    def wrapper(*a, **k):  # noqa: ANN002, ANN003
        result = func(*a, **k)
        counter[0] += 1
        if not post(a, k, result):
            raise error(f"post-condition of {func.__qualname__} violated: args={a!r} result={result!r}"[:600])
        return result

    return wrapper
