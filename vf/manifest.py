"""Regenerates /verif/MANIFEST.json from the metadata of the check modules: ``python -m vf.manifest``."""
from __future__ import annotations

import importlib
import json
import os

HOME = os.path.dirname(os.path.dirname(os.path.abspath(__file__)))

NOT_BUILT = "check not built yet in this session (planned in DESIGN.md §5); not claimed until it exists and is silent on the unchanged tree"


def main() -> None:
    props = [json.loads(l) for l in open(os.path.join(HOME, "properties.jsonl"))]
    checks, na = [], []
    ready = set(open(os.path.join(HOME, "vf", "checks", "ready.txt")).read().split())
    for p in props:
        pid = p["id"]
        if pid not in ready:
            na.append({"property_id": pid, "reason": NOT_BUILT})
            continue
        try:
            mod = importlib.import_module("vf.checks." + pid.lower())
        except ModuleNotFoundError:
            na.append({"property_id": pid, "reason": NOT_BUILT})
            continue
        if getattr(mod, "NOT_APPLICABLE", None):
            na.append({"property_id": pid, "reason": mod.NOT_APPLICABLE})
            continue
        checks.append({
            "property_id": pid,
            "quick_cmd": f"bin/check {pid} --tier quick",
            "thorough_cmd": f"bin/check {pid} --tier thorough",
            "evidence_file": f"/verif/evidence/{pid}.json",
            "replay_cmd_template": f"bin/check {pid} --replay {{path}}",
            "engine": "vf",
            "level_claimed": {"category": mod.LEVEL, "text": mod.LEVEL_TEXT, "design_ref": f"DESIGN.md §5 {pid}"},
            "level_note": mod.LEVEL_NOTE,
            "technique": mod.TECHNIQUE,
        })
    manifest = {
        "version": 1,
        "setup_cmd": "bin/setup",
        "hooks": {
            "guard": "GRIFFE_VERIF",
            "enable": "no in-tree hooks: bin/check sets GRIFFE_VERIF=1 and PYTHONPATH=$VERIF_REPO/src (default /repo) so the "
                      "working tree is imported directly; monitors attach from the harness (Extension API, wrapped "
                      "functions, sys.monitoring, sys.addaudithook, patched OS boundaries)",
            "baseline_off_cmd": "cd /repo && /venv/bin/python -m pytest -ra -q -p no:cacheprovider --timeout=900 --continue-on-collection-errors",
            "source_commits": [],
            "add_only": True,
        },
        "engines": [{"name": "vf", "path": "vf/", "serves_properties": [c["property_id"] for c in checks],
                     "kind_free_text": "runtime monitoring harness: sharded child interpreters running the real code under "
                                       "generated workloads, with monitors (sys.monitoring reach/step budgets, contracts, "
                                       "extension-event traces, audit hooks, state snapshots) and CPython-as-reference oracles"}],
        "checks": checks,
        "not_applicable": na,
        "notes": "Every verdict is 'held on the executions observed' (exit 0), 'violated' (exit 1, VIOLATION line + replay "
                 "file) or 'inconclusive' (exit 2: a deciding monitor never fired / a child died). Known findings are "
                 "listed in known_findings.json by mechanism and printed as KNOWN-FINDING lines.",
    }
    with open(os.path.join(HOME, "MANIFEST.json"), "w") as fh:
        json.dump(manifest, fh, indent=1)
        fh.write("\n")
    print(f"MANIFEST.json: {len(checks)} checks, {len(na)} not_applicable")


if __name__ == "__main__":
    main()
