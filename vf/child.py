"""Child interpreter entry: ``python -m vf.child <ID> <spec.json> <out.json>``.

Asserts that the code under test really is ``$VERIF_REPO/src`` (the installed griffelib would
otherwise shadow it), installs the reach monitor, runs one shard of one check and dumps the
recorder.  A per-case wall-clock watchdog (SIGALRM) turns hangs into *inconclusive* cases.
"""
from __future__ import annotations

import faulthandler
import importlib
import json
import logging
import os
import signal
import sys
import time


class CaseTimeout(BaseException):
    pass


def _alarm(signum, frame):  # noqa: ANN001
    raise CaseTimeout("per-case wall-clock watchdog fired")


def main() -> int:
    prop, spec_path, out_path = sys.argv[1:4]
    with open(spec_path) as fh:
        spec = json.load(fh)
    faulthandler.enable()
    repo_src = os.path.join(os.path.realpath(os.environ.get("VERIF_REPO", "/repo")), "src")
    import _griffe
    import griffe

    for mod in (griffe, _griffe):
        if not os.path.realpath(mod.__file__).startswith(repo_src + os.sep):
            print(f"INCONCLUSIVE: {mod.__name__} imported from {mod.__file__}, not from {repo_src}", file=sys.stderr)
            return 2
    logging.getLogger("griffe").setLevel(logging.CRITICAL + 1)
    logging.getLogger("_griffe").setLevel(logging.CRITICAL + 1)

    from vf.core import mon
    from vf.core.rec import Recorder

    check = importlib.import_module("vf.checks." + prop.lower())
    rec = Recorder(prop, spec)
    reach = mon.Reach()
    if os.environ.get("GRIFFE_VERIF") == "1" and not getattr(check, "NO_REACH", False):
        reach.start()
    signal.signal(signal.SIGALRM, _alarm)
    t0 = time.time()
    status = "done"
    try:
        mode = spec.get("mode", "shard")
        if mode == "shard":
            check.run_shard(spec, rec)
        elif mode == "pinned":
            rec.pinned_results = check.run_pinned(spec["findings"], rec)
        elif mode == "replay":
            check.run_replay(spec["input"], rec)
        else:
            raise ValueError(mode)
    except BaseException as exc:  # noqa: BLE001
        import traceback

        status = "crashed: " + "".join(traceback.format_exception(type(exc), exc, exc.__traceback__))[-3000:]
    finally:
        signal.alarm(0)
        reach.stop()
    out = rec.dump()
    out["status"] = status
    out["reach"] = sorted(reach.seen)
    out["wall_s"] = time.time() - t0
    out["pinned"] = getattr(rec, "pinned_results", None)
    with open(out_path, "w") as fh:
        json.dump(out, fh)
    return 0


if __name__ == "__main__":
    sys.exit(main())
